#!/venv/bin/python
"""Regenerates MANIFEST.json from one table (kept in code so it stays valid and consistent)."""
import json, os, subprocess

HERE = os.path.dirname(os.path.abspath(__file__))

CLAIMED = {
    "C15": {
        "design_ref": "DESIGN.md 4.1",
        "technique": "deterministic simulation: baton-scheduled real threads with pre-emption at every source line / function return / bytecode instruction of config.py, simulated thread identifiers (reuse), environment flips, crowds of 64-100 threads, threads unknown to the threading module, stale Thread handles released late, strict-warnings worlds, library operations (runner construction / evaluation) between configuration operations, attempts rejected because of a key or a value, one scope handle shared by several threads with overlapping scopes, forks while other threads are inside scopes (the child takes the identifier of every other parent thread in turn); every read checked against a reference model; seeded schedule search (uniform, sticky, PCT, race-directed) plus systematic single-insertion sweeps; replay + minimisation",
        "text": "Seeded search over thread schedules (uniform/sticky/PCT) x operation programs x environment flips x identifier reuse, each read compared with a reference model of scoped thread-local overrides; sampling, not proof - a clean batch is evidence that no shallow ordering or leftover-state bug exists at line granularity.",
        "note": "Pre-emption at source lines / function returns (2/3 of the runs) or bytecode instructions (1/3) of sqllineage/config.py; C-implemented dict/set operations are atomic, as under the GIL; accepted override values stay in the documented domain (un-coercible values only as attempts that must be rejected); trusted: the reference model in sim/props/c15.py, the scheduler, SimLock and ThreadingShim in sim/sched.py.",
    },
    "C12": {
        "design_ref": "DESIGN.md 4.2",
        "technique": "deterministic simulation with fault injection: baton-scheduled caller threads analysing script sequences (generated, dialect-specific, corpus, templated with per-project sqlfluff config) with reused providers; faults = bad statement at position k, provider failure on the j-th lookup, exception out of a tap or at a source line of _eval; world classes = T-SQL split mode, dialect zoo, project configurations, same text under T-SQL split mode and another dialect, statements beyond the splitter's guards, warnings-as-errors with scalar sub-queries and with T-SQL split-mode / plain-mode scripts in different threads, analyses issued through the command line (a provider per call) and through POST /lineage of the bundled web application (one provider for the process); locks created by sqllineage code are scheduling points (SimLock); oracle = isolated reference in a fresh fork + provider hygiene probe; seeded search + full fault sweep over a fixed workload + single-insertion sweeps",
        "text": "Seeded search over run histories x thread schedules x fault points, plus a complete sweep of every failure point (statement position, lookup index, statement boundary) over a fixed 8-script workload; every unfaulted analysis must equal the same analysis alone in a fresh process and every provider must answer like a fresh one whenever it is quiescent. Sampling of histories and schedules; the fault-point sweep is complete only for the fixed workload.",
        "note": "Dependencies (sqlfluff/sqlparse/networkx) are atomic w.r.t. pre-emption; crash points are collaborator call-outs and taps, not arbitrary bytecodes; a wrong-but-stable answer is invisible (reference = same code alone); trusted: sim/props/c12.py, sim/sched.py, the guarded taps in /repo.",
    },
    "C11": {
        "design_ref": "DESIGN.md 4.3",
        "technique": "deterministic simulation over the hash-seed / process / process-history / call-order seams: every input observed in fresh forks of zygotes started with different PYTHONHASHSEED under seeded accessor-call permutations with repetitions, and in a warm process that analysed sibling scripts - or the byte-identical text under another dialect, T-SQL split mode or project configuration - first; cross-world comparison of canonical dumps",
        "text": "Every corpus, TPC-DS and generated input is analysed in 4 (quick) / 32 (thorough) interpreters with different string-hash seeds, twice each in fresh forks with different accessor programs; all canonical answers must agree. Sampling over inputs and seeds: a seed-dependent choice that needs a rarer hash collision pattern than the sampled seeds produce is missed.",
        "note": "Canonical dump treats the cytoscape export as an unordered collection of elements (positional edge ids dropped) and rewrites subquery_<int>; exceptions compared by type; trusted: sim/canon.py, sim/props/c11.py.",
    },
    "C03": {
        "design_ref": "DESIGN.md 4.4",
        "technique": "history-vs-reference-model simulation: seeded operation histories (rw / drop / rename, verbatim repeats, shared holder objects) applied operation by operation to the real accumulator (holder API and rendered SQL through LineageRunner with statement tap - incl. column-bearing renderings with and without a metadata provider, stray qualifiers and directory datasets) and to a partial reference model (set of allowed states); reorder / duplicate delivery and hash-seed variation; plus a shared-runner world (two baton-scheduled callers on one runner, random schedules and systematic single-insertion sweeps) and a crash-and-retry world (first evaluation interrupted at a statement boundary, same runner asked again)",
        "text": "Seeded sampling of statement histories (length <= 6, 3-4 tables), each prefix compared with a partial reference model that constrains exactly what the statement constrains; order/duplication clause checked by permuted and repeated delivery; every history runs under one of 8 hash seeds. Not the exhaustive enumeration the quantifier mentions (that would be model checking): coverage is reported as distinct histories and model states reached.",
        "note": "History clause only - there is no I/O, clock or thread in the fold, said plainly in DESIGN.md; RENAME outside the determined zone is checked for weak invariants only; exceptions in the loose zone are not judged; trusted: the model in sim/props/c03.py.",
    },
    "C04": {
        "design_ref": "DESIGN.md 4.5",
        "technique": "history-vs-reference-model simulation of the runner <-> provider-session protocol: seeded statement chains plus fixed shapes (re-creation between verbatim repeated readers, re-writes through permuted column lists, self-rewrites, scalar sub-queries analysed by a nested runner, non-defining writes - UPDATE / MERGE / INSERT / VALUES - between the definition of a table and its wildcard reader), per-statement facts and session traffic observed through guarded taps, composition oracle over the recorded history; hash-seed variation as the only fault dimension",
        "text": "Seeded sampling of 2-5 statement chains x provider in {none, SimProvider, Dummy} x both analyzers; the script's column paths must equal the composition of the per-statement pairs the taps reported, the session must follow a register/lookup/deregister model statement by statement, wildcard expansion from session metadata must be exact, and attribution never leaves a statement's candidate set. Shapes the property does not determine (unresolved columns with 0 or >=2 defining candidates, cyclic column graphs, re-definition of a table) are skipped and counted.",
        "note": "History clause + collaborator only (deterministic in script and metadata, said plainly in DESIGN.md); per-statement pairs are taken from the library's own statement holders through the tap, so a defect inside ONE statement's analysis is invisible here (that is C02, not claimed); trusted: sim/props/c04.py, sim/gen_sql.py.",
    },
    "C14": {
        "design_ref": "DESIGN.md 4.6",
        "technique": "deterministic simulation over the import-time / environment / thread seams: zygotes imported with or without SQLLINEAGE_DEFAULT_SCHEMA, baton-scheduled threads analysing under different scoped defaults with line-level pre-emption in config.py and core/models.py, operator environment flips, several threads under the environment mechanism after a change, several analyses inside one scoped block, an earlier analysis of the thread crashed at the k-th traced source line inside a statement's extraction, threads unknown to the threading module, per-thread histories S1 -> S2 -> none; workload = fixed templates + dialect zoo (every ansi-written template under 26 further dialects) + corpus; reference = qualified rendering in a clean process",
        "text": "A fixed template set covering every Table construction site is analysed under every process lifetime x mechanism (complete sweep, single thread) and under seeded thread schedules / histories / environment flips (sampling); each analysis must equal the S-qualified rendering analysed with no default in a clean process. The input dimension (programs) is deliberately not searched.",
        "note": "Fixed committed templates and dialect zoo (sim/templates_c14.py; template x dialect pairs that do not parse are counted and skipped); qualifier-fallback site excluded (invalid SQL); environment flips only while analyses run under scoped overrides; trusted: sim/props/c14.py, sim/canon.py, ThreadingShim in sim/sched.py.",
    },
    "C17": {
        "design_ref": "DESIGN.md 4.7",
        "technique": "deterministic simulation with I/O fault injection: the WSGI app driven in-process over a scratch directory tree with unique content/name markers; seeded request histories (path spellings incl. detours, literal ~ / $VAR / %-escaped spellings with HOME as a seam, route spelling variants, one or both path parameters, payload shape variants) with root moves, chdir, tree mutations, DIRECTORY flips between requests, OSError at the n-th open/exists/is_dir/iterdir, and (threaded class) two clients + a root-move actor under the baton scheduler with line-level pre-emption in drawing.py; one-directional disclosure oracle judged from the response (markers, served content, listed directory)",
        "text": "Seeded sampling of request histories x path spellings x administrative operations x I/O faults (x schedules in the threaded class); no response may contain a marker living outside the root in force and a lexically outside path never gets 200. Not the exhaustive enumeration of <=5-segment spellings the quantifier describes (that would be bounded model checking); coverage is reported as distinct histories and (route, class, status) tuples reached.",
        "note": "Lexical model (symlinks out of scope, as stated); chdir / tree mutations only between requests; wsgiref socket layer not exercised; an escaping exception counts as refusal; trusted: the marker oracle and path model in sim/props/c17.py.",
    },
}

PLANNED = {
}

NA = {
    "C01": "pure function of (statement, dialect): no schedule, clock, collaborator failure, process history or accumulator history can change its truth; needs an input-space technique, which this task does not substitute (DESIGN.md 5)",
    "C02": "pure function of (statement, dialect): column lineage of one statement depends on nothing but its text (DESIGN.md 5)",
    "C05": "textual property of the statement splitter relating one script to its parts; the only state involved (per-run tsql split cache) is exercised under C12, not claimed here (DESIGN.md 5)",
    "C06": "invariant of a result value, reachable only through input diversity - nothing for a scheduler or fault injector to decide (DESIGN.md 5)",
    "C07": "metamorphic relation between two spellings of one input; no schedule/fault/history dimension (DESIGN.md 5)",
    "C08": "metamorphic relation between two inputs (renaming of statement-local names); no schedule/fault/history dimension (DESIGN.md 5)",
    "C09": "relation between pure functions under different static dialect/parser values with no shared state (DESIGN.md 5)",
    "C10": "totality over input strings: the 'faults' are malformed inputs, i.e. input generation; what a failing statement leaves behind is decided under C12 (DESIGN.md 5)",
    "C13": "relation between run(sql, metadata) and run(sql, no metadata), both pure; provider failure is not part of the statement (DESIGN.md 5)",
    "C16": "pure function of identifier spelling and syntactic position (DESIGN.md 5)",
    "C18": "to_cytoscape and the text summary are pure functions of the graph (DESIGN.md 5)",
}


def main():
    props = [json.loads(l)["id"] for l in open(os.path.join(HERE, "properties.jsonl"))]
    commits = []
    try:
        out = subprocess.run(["git", "-C", "/repo", "log", "--format=%h %s"], capture_output=True, text=True).stdout
        commits = [l.split()[0] for l in out.splitlines() if l.split(" ", 1)[1].startswith("verif:")]
    except Exception:
        pass
    checks = []
    for pid, c in CLAIMED.items():
        checks.append({
            "property_id": pid,
            "quick_cmd": f"./check {pid} --tier quick",
            "thorough_cmd": f"./check {pid} --tier thorough",
            "evidence_file": f"/verif/evidence/{pid}.json",
            "replay_cmd_template": f"./check {pid} --replay {{path}}",
            "engine": "sim",
            "level_claimed": {"category": "exploration", "text": c["text"], "design_ref": c["design_ref"]},
            "level_note": c["note"],
            "technique": c["technique"],
        })
    na = [{"property_id": p, "reason": NA[p]} for p in props if p in NA]
    na += [{"property_id": p, "reason": PLANNED[p]} for p in props if p in PLANNED and p not in CLAIMED]
    missing = [p for p in props if p not in CLAIMED and p not in NA and p not in PLANNED]
    assert not missing, missing
    man = {
        "version": 1,
        "setup_cmd": "cd /verif && PYTHONPATH=/repo:/verif PYTHONDONTWRITEBYTECODE=1 /venv/bin/python -c \"import sim.framework, sim.sched, sim.driver, sim.zygote, sqllineage.runner; print('setup ok')\"",
        "hooks": {
            "guard": "SQLLINEAGE_VERIF",
            "enable": "pure Python: checks import sqllineage from /repo's working tree (PYTHONPATH=/repo) with SQLLINEAGE_VERIF=1 in the environment of every zygote; with the variable unset the taps are inert no-ops",
            "baseline_off_cmd": "cd /repo && env -u SQLLINEAGE_VERIF /venv/bin/python -m pytest -ra -q -p no:cacheprovider --timeout=900 --continue-on-collection-errors",
            "source_commits": commits,
            "add_only": True,
        },
        "engines": [{
            "name": "sim", "path": "/verif/sim",
            "serves_properties": sorted(CLAIMED),
            "kind_free_text": "hand-written deterministic simulator: zygote per PYTHONHASHSEED/pre-import environment, fork per simulated run, baton scheduler over real threads with sys.monitoring LINE pre-emption, seeded fault injection, JSON replay files, greedy delta minimisation",
        }],
        "checks": checks,
        "not_applicable": na,
        "notes": "Technique family: deterministic simulation with fault injection. See DESIGN.md. known_findings.json lists repaired (fixed:) and open defects.",
    }
    with open(os.path.join(HERE, "MANIFEST.json"), "w") as f:
        json.dump(man, f, indent=1)
    print("wrote MANIFEST.json:", len(checks), "checks,", len(na), "not applicable")


if __name__ == "__main__":
    main()
