"""Generic check runner: plan -> execute in forked children -> aggregate ->
confirm / minimise / replay violations -> evidence -> exit code.

A property module (``sim.props.cXX``) provides

  ID, PRELOAD, BUDGET_S, DESCRIPTION (static evidence text, required probes)
  plan(seed, tier) -> list[unit]           unit = {"key": {...}, "specs": [spec, ...], "wall_s": float}
  execute(arg) -> {"runs": [runresult, ...]}        runs in a forked child;  arg = {"specs": [...]}
  shrink_candidates(spec) -> list[spec]    one-step simplifications, best first
optional extension points
  search(pool, tier, seed, deadline, agg)  replaces plan/execute for oracles that compare *across* processes (C11)
  eval_many(pool, key, specs) -> [runresult|None]   how one spec is decided (default: one forked child)
  pinned(entries) -> [(entry, key, spec)]  known-finding / fixed regression inputs
  match_known(spec, violation, entries) -> entry | None

runresult = {"verdict": "ok" | "violation" | "skip", "violation": {"class", "message", ...},
             "digest", "line_digest", "steps", "faults": {...}, "probes": {...}, "states": [...],
             "nontrivial": bool, "log_digest", "spec": spec-with-schedule (violations only), "sample": ...}

Exit codes: 0 held on everything explored (KNOWN-FINDING lines allowed); 1 VIOLATION; 2 HARNESS-ERROR.
"""
from __future__ import annotations

import importlib
import json
import os
import sys
import time
from collections import Counter
from typing import Any, Optional

from .driver import Pool
from .util import VERIF_DIR, digest, env_float, env_int

EXIT_OK, EXIT_VIOLATION, EXIT_HARNESS = 0, 1, 2


class Harness(Exception):
    pass


def load_known(prop_id: str) -> list[dict]:
    p = os.path.join(VERIF_DIR, "known_findings.json")
    if not os.path.exists(p):
        return []
    with open(p) as f:
        data = json.load(f)
    return [e for e in data.get("findings", []) if e.get("property") == prop_id]


def job(mod, key: dict, specs: list[dict], wall_s: float, fn: str = "execute") -> dict:
    return {"key": key, "module": mod.__name__, "fn": fn, "arg": {"specs": specs}, "wall_s": wall_s}


def eval_many(pool: Pool, mod, key: dict, specs: list[dict]) -> list[Optional[dict]]:
    if hasattr(mod, "eval_many"):
        return mod.eval_many(pool, key, specs)
    # a spec of the form {"history": [s0 .. sk]} is a *process history*: the runs are executed one after the other in
    # ONE fresh fork (as they were in the block of the search that found the violation) and the verdict is that of
    # the last one - for violations that need state left behind by earlier runs of the same process
    res = pool.run([job(mod, key, (s["history"] if "history" in s else [s]), 180.0 + 2.0 * len(s.get("history", ()))) for s in specs])
    out: list[Optional[dict]] = []
    for s, r in zip(specs, res):
        if r is None or not r.get("ok"):
            out.append(None)
        elif "history" in s:
            runs = r["result"]["runs"]
            rr = dict(runs[-1])
            rr["log_digest"] = digest([x.get("log_digest", "") for x in runs])
            if rr.get("verdict") == "violation":
                rr["spec"] = {"history": list(s["history"][:-1]) + [rr.get("spec") or s["history"][-1]]}
            out.append(rr)
        else:
            out.append(r["result"]["runs"][0])
    return out


def single(pool: Pool, mod, key: dict, spec: dict) -> dict:
    rr = eval_many(pool, mod, key, [spec])[0]
    if rr is None:
        raise Harness(f"single run failed\n{pool.logs()[-3000:]}")
    return rr


def minimise(pool: Pool, mod, key: dict, spec: dict, vclass: str, budget_s: float) -> tuple[dict, dict]:
    """Greedy one-step delta debugging; every candidate runs in a fresh fork and
    counts only if it fails with the same violation class."""
    t_end = time.monotonic() + budget_s
    cur = spec
    evals = 0
    improved = True
    rounds = 0
    while improved and time.monotonic() < t_end:
        improved = False
        rounds += 1
        cands = mod.shrink_candidates(cur)
        B = max(4, pool.workers)
        for s in range(0, len(cands), B):
            if time.monotonic() > t_end:
                break
            batch = cands[s: s + B]
            res = eval_many(pool, mod, key, batch)
            evals += len(batch)
            hit = None
            for c, rr in zip(batch, res):
                if rr is not None and rr.get("verdict") == "violation" and rr["violation"]["class"] == vclass:
                    hit = c  # keep the candidate itself (not a re-recorded schedule): guarantees progress
                    break
            if hit is not None:
                cur = hit
                improved = True
                break
    return cur, {"evals": evals, "rounds": rounds, "budget_exhausted": time.monotonic() >= t_end}


def write_replay(prop_id: str, key: dict, spec: dict, violation: dict, log_digest: str, tag: str, extra: Optional[dict] = None) -> str:
    d = os.path.join(VERIF_DIR, "replays")
    os.makedirs(d, exist_ok=True)
    path = os.path.join(d, f"{prop_id}-{tag}.json")
    with open(path, "w") as f:
        json.dump(
            {"property": prop_id, "world": key, "spec": spec, "violation": violation, "log_digest": log_digest, **(extra or {})},
            f, indent=1, sort_keys=True,
        )
    return path


def replay_file(mod, path: str) -> int:
    with open(path) as f:
        rp = json.load(f)
    with Pool(workers=2, preload=mod.PRELOAD) as pool:
        rr = single(pool, mod, rp["world"], rp["spec"])
    want = rp.get("violation", {}).get("class")
    if rr.get("verdict") == "violation":
        same = rr["violation"]["class"] == want
        dig_same = rr.get("log_digest") == rp.get("log_digest")
        print(f"replay: violation class={rr['violation']['class']} (recorded {want}) same_class={same} same_log_digest={dig_same}")
        print("  " + rr["violation"].get("message", "")[:2000])
        print(f"VIOLATION property={mod.ID} replay={path}")
        return EXIT_VIOLATION
    print(f"replay: no violation (recorded class {want})")
    return EXIT_OK


class Agg:
    def __init__(self) -> None:
        self.runs = 0
        self.skipped = 0
        self.steps = 0
        self.faults: Counter = Counter()
        self.probes: Counter = Counter()
        self.extra: Counter = Counter()
        self.digests: set = set()
        self.line_digests: set = set()
        self.nontrivial: set = set()
        self.states: set = set()
        self.violations: list[tuple[Any, dict, dict, dict]] = []  # (order, key, spec, runresult)
        self.harness: list = []
        self.samples: list = []
        self.logdig: dict = {}
        self.planned = 0

    def add(self, order: Any, key: dict, rr: dict) -> None:
        if rr.get("verdict") == "skip":
            self.skipped += 1
            return
        self.runs += 1
        self.steps += rr.get("steps", 0)
        self.faults.update(rr.get("faults", {}))
        self.probes.update(rr.get("probes", {}))
        self.extra.update(rr.get("extra", {}))
        d = rr.get("digest")
        if d:
            self.digests.add(d)
            if rr.get("nontrivial"):
                self.nontrivial.add(d)
        ld = rr.get("line_digest")
        if ld:
            self.line_digests.add(ld)
        for s in rr.get("states", ()):
            self.states.add(s)
        if rr.get("sample") is not None and len(self.samples) < 4:
            self.samples.append(rr["sample"])
        if rr.get("verdict") == "violation":
            self.violations.append((order, key, rr.get("spec"), rr))


def generic_search(pool: Pool, mod, tier: str, seed: int, deadline: float, agg: Agg) -> None:
    units = mod.plan(seed, tier)
    agg.units = units
    jobs = [job(mod, u["key"], u["specs"], u.get("wall_s", 180.0)) for u in units]
    agg.planned = sum(len(u["specs"]) for u in units)

    def on_result(i: int, r: dict) -> None:
        if not r.get("ok"):
            agg.harness.append((i, r))
            return
        agg.logdig[i] = [rr.get("log_digest", "") for rr in r["result"]["runs"]]
        for k, rr in enumerate(r["result"]["runs"]):
            agg.add((i, k), units[i]["key"], rr)

    pool.run(jobs, deadline=deadline, on_result=on_result,
             stop_when=lambda: len(agg.violations) >= 8 or len(agg.harness) > 0)


def run_check(mod, tier: str, seed: int) -> int:
    t0 = time.monotonic()
    budget = env_float("VERIF_BUDGET_S", mod.BUDGET_S[tier])
    deadline = t0 + budget
    known = load_known(mod.ID)
    agg = Agg()
    exit_code = EXIT_OK
    with Pool(preload=mod.PRELOAD) as pool:
        # 1. pinned regression inputs: open known findings and repaired ("fixed") defects
        kf_lines: list[str] = []
        pinned_viol: list[tuple[dict, dict, dict]] = []
        pinned_n = 0
        if hasattr(mod, "pinned"):
            pj = mod.pinned(known)
        else:  # default: entries that carry an executable spec
            pj = [(e, e.get("world", {"hash_seed": 0}), e["spec"]) for e in known if "spec" in e]
        pres: list[Optional[dict]] = [None] * len(pj)
        groups: dict[str, list[int]] = {}
        for i, (_e, key, _s) in enumerate(pj):
            groups.setdefault(json.dumps(key, sort_keys=True), []).append(i)
        for idxs in groups.values():
            for i, rr in zip(idxs, eval_many(pool, mod, pj[idxs[0]][1], [pj[i][2] for i in idxs])):
                pres[i] = rr
        for (entry, key, spec), rr in zip(pj, pres):
            pinned_n += 1
            if rr is None:
                agg.harness.append((-1, {"error": "pinned input failed to run", "entry": entry["id"]}))
                continue
            if rr.get("verdict") == "violation":
                if entry.get("status") == "open" and entry.get("class") in (None, rr["violation"].get("class")):
                    kf_lines.append(f"KNOWN-FINDING: property={mod.ID} {entry['id']}: {entry['what']}")
                else:
                    pinned_viol.append((key, rr.get("spec") or spec, rr))
            elif entry.get("status") == "open":
                kf_lines.append(f"NOTE: known finding {entry['id']} of {mod.ID} no longer reproduces on this tree")
        # 2. the search
        if hasattr(mod, "search"):
            mod.search(pool, tier, seed, deadline, agg)
        else:
            generic_search(pool, mod, tier, seed, deadline, agg)

        if agg.harness:
            i, r = agg.harness[0]
            print(f"HARNESS-ERROR property={mod.ID} job={i}: {json.dumps(r)[:3000]}")
            print(pool.logs()[-6000:])
            exit_code = EXIT_HARNESS
        if not agg.harness or pinned_viol or agg.violations:
            # (a job that failed or timed out never becomes a pass - but violations found besides it are still
            # confirmed and reported: a confirmed violation is the verdict)
            for l in kf_lines:
                print(l)
            # 3. violations: confirm in a fresh fork, minimise, write + replay the file, report
            reported: set[str] = set()
            confirmed_violation = False
            cand = [(None, k, s, rr) for (k, s, rr) in pinned_viol] + [(o, k, s, rr) for (o, k, s, rr) in sorted(agg.violations, key=lambda x: x[0])]
            for order, key, spec, rr in cand:
                vclass = rr["violation"]["class"]
                if vclass in reported:
                    continue
                reported.add(vclass)
                again = single(pool, mod, key, spec)
                units_ = getattr(agg, "units", None)
                if (again.get("verdict") != "violation" or again["violation"]["class"] != vclass) and units_ and isinstance(order, tuple) \
                        and order[1] > 0 and not hasattr(mod, "eval_many"):
                    # not reproducible alone: it may need what earlier runs of the same forked process left behind.
                    # Re-run the run together with its predecessors in the block (shortest suffix of the history first)
                    ui, k = order
                    prefix = units_[ui]["specs"][: k + 1]
                    n = 1
                    while True:
                        n = min(n, k)
                        a2 = single(pool, mod, key, {"history": prefix[k - n:]})
                        if a2.get("verdict") == "violation" and a2["violation"]["class"] == vclass:
                            again, spec = a2, a2["spec"]
                            print(f"  (violation class={vclass} needs process history: reproduced with its {n} predecessor run(s) in one fresh process)")
                            break
                        if n >= k:
                            break
                        n *= 2
                if again.get("verdict") != "violation" or again["violation"]["class"] != vclass:
                    print(f"HARNESS-ERROR property={mod.ID} nonreplayable violation class={vclass}: {rr['violation'].get('message', '')[:800]}")
                    exit_code = EXIT_HARNESS
                    continue
                spec = again.get("spec") or spec
                if "history" in spec:
                    mspec, minfo = spec, {"process_history_runs": len(spec["history"]), "note": "shortest reproducing suffix of the block; single runs not minimised"}
                else:
                    mspec, minfo = minimise(pool, mod, key, spec, vclass, env_float("VERIF_MIN_BUDGET_S", 60.0))
                final = single(pool, mod, key, mspec)
                if final.get("verdict") != "violation" or final["violation"]["class"] != vclass:
                    mspec, final = spec, again
                    minfo["fallback_unminimised"] = True
                mspec = final.get("spec") or mspec
                ke = mod.match_known(mspec, final["violation"], known) if hasattr(mod, "match_known") else None
                if ke is not None and ke.get("status") == "open":
                    print(f"KNOWN-FINDING: property={mod.ID} {ke['id']}: {ke['what']} (re-derived by the search)")
                    continue
                tag = f"{seed}-{vclass}"
                path = write_replay(mod.ID, key, mspec, final["violation"], final.get("log_digest", ""), tag,
                                    {"minimise": minfo, "verif_seed": seed, "tier": tier})
                # replay from the file in a fresh zygote: must fail the same way with the same log
                with Pool(workers=2, preload=mod.PRELOAD) as p2:
                    with open(path) as f:
                        rp = json.load(f)
                    chk = single(p2, mod, rp["world"], rp["spec"])
                if chk.get("verdict") != "violation" or chk["violation"]["class"] != vclass or chk.get("log_digest") != final.get("log_digest"):
                    print(f"HARNESS-ERROR property={mod.ID} replay file does not reproduce exactly: {path}")
                    exit_code = EXIT_HARNESS
                    continue
                print(f"violation class={vclass}: {final['violation'].get('message', '')[:1500]}")
                if minfo.get("budget_exhausted"):
                    print("  (minimisation budget exhausted; replay file may not be minimal)")
                print(f"VIOLATION property={mod.ID} replay={path}")
                confirmed_violation = True
                if exit_code == EXIT_OK:
                    exit_code = EXIT_VIOLATION
            if confirmed_violation and exit_code == EXIT_HARNESS:
                # at least one violation class was confirmed and replays exactly: that is the verdict (exit 1); a
                # further class that could not be reproduced exactly stays reported above as HARNESS-ERROR text
                exit_code = EXIT_VIOLATION
        zstarts = pool.zygote_starts

    wall = time.monotonic() - t0
    not_run = max(0, agg.planned - agg.runs - agg.skipped)
    # operation-level saturation counters ("sat|<program>|<possible>|<order>") are summarised, not dumped
    sat: dict[str, dict] = {}
    for k in [k for k in agg.extra if isinstance(k, str) and k.startswith("sat|")]:
        _s, prog, possible, _order = k.split("|", 3)
        d = sat.setdefault(prog, {"possible": int(possible), "distinct_seen": 0, "samples": 0})
        d["distinct_seen"] += 1
        d["samples"] += agg.extra[k]
        del agg.extra[k]
    cov = {
        "evaluations": agg.runs + pinned_n,
        "distinct_nontrivial": len(agg.nontrivial),
        "rule": mod.DESCRIPTION["rule"],
        "samples": agg.samples or [{"note": "no sample recorded"}],
        "simulated_runs": agg.runs,
        "planned_runs": agg.planned,
        "runs_not_executed_budget": not_run,
        "skipped_by_generator": agg.skipped,
        "pinned_regression_inputs": pinned_n,
        "runs_per_hour": int(agg.runs / wall * 3600) if wall > 0 else 0,
        "seeds": {"VERIF_SEED": seed, "per_run_seeds": "derived from VERIF_SEED, one per simulated run (see rule)"},
        "logical_steps_yield_points": agg.steps,
        "simulated_time": "not applicable: sqllineage has no clock, timer or timeout; progress is counted in logical steps (yield points)",
        "faults_fired": dict(sorted(agg.faults.items())),
        "probes_hit": dict(sorted(agg.probes.items())),
        "distinct_operation_level_histories": len(agg.digests),
        "distinct_line_level_interleavings": len(agg.line_digests),
        "distinct_model_states": len(agg.states),
        "other_counters": dict(sorted(agg.extra.items())),
        "operation_level_interleaving_saturation": {"note": "fixed 2-thread programs, operation-level schedules drawn uniformly at random; possible = C(a+b, a) merge orders of the two threads' operation-level yield points", "per_program": sat} if sat else None,
        "zygotes_started": zstarts,
        "batch_log_digest": digest(sorted((str(k), v) for k, v in agg.logdig.items())),
        "real_code": mod.DESCRIPTION["real_code"],
        "stubs": mod.DESCRIPTION["stubs"],
        "exhaustive": False,
    }
    ev = {
        "property_id": mod.ID, "tier": tier, "seed": seed, "level": "exploration", "coverage": cov,
        "assumptions": mod.DESCRIPTION["assumptions"], "wall_s": round(wall, 2), "violations": len(agg.violations),
    }
    if exit_code != EXIT_HARNESS and not os.environ.get("VERIF_NO_EVIDENCE"):
        os.makedirs(os.path.join(VERIF_DIR, "evidence"), exist_ok=True)
        with open(os.path.join(VERIF_DIR, "evidence", f"{mod.ID}.json"), "w") as f:
            json.dump(ev, f, indent=1, sort_keys=True)
    print(
        f"[{mod.ID}] tier={tier} seed={seed} runs={agg.runs}/{agg.planned} pinned={pinned_n} steps={agg.steps} "
        f"distinct={len(agg.digests)} nontrivial={len(agg.nontrivial)} line_interleavings={len(agg.line_digests)} "
        f"states={len(agg.states)} violations={len(agg.violations)} wall={wall:.1f}s"
    )
    print(f"[{mod.ID}] batch_log_digest={cov['batch_log_digest'][:32]}")
    print(f"[{mod.ID}] faults={dict(sorted(agg.faults.items()))}")
    print(f"[{mod.ID}] probes={dict(sorted(agg.probes.items()))}")
    if agg.extra:
        print(f"[{mod.ID}] other={dict(sorted(agg.extra.items()))}")
    # non-vacuity: required probes must have fired (only judged when the whole plan ran)
    missing = [p for p in mod.DESCRIPTION.get("required_probes", {}).get(tier, []) if agg.probes.get(p, 0) == 0]
    if missing and exit_code == EXIT_OK and not_run == 0:
        print(f"HARNESS-ERROR property={mod.ID} vacuous run: probes never hit: {missing}")
        exit_code = EXIT_HARNESS
    return exit_code


def main(argv: list[str]) -> int:
    import argparse

    ap = argparse.ArgumentParser()
    ap.add_argument("prop")
    ap.add_argument("--tier", default=os.environ.get("VERIF_TIER", "quick"), choices=["quick", "thorough"])
    ap.add_argument("--seed", type=int, default=env_int("VERIF_SEED", 0))
    ap.add_argument("--replay")
    a = ap.parse_args(argv)
    mod = importlib.import_module(f"sim.props.{a.prop.lower()}")
    try:
        if a.replay:
            return replay_file(mod, a.replay)
        return run_check(mod, a.tier, a.seed)
    except Harness as e:
        print(f"HARNESS-ERROR property={a.prop} {e}")
        return EXIT_HARNESS


if __name__ == "__main__":
    sys.exit(main(sys.argv[1:]))
