"""Generic check runner: plan -> execute in forked children -> aggregate ->
confirm / minimise / replay violations -> evidence -> exit code.

A property module (``sim.props.cXX``) provides

  ID, PRELOAD, DESCRIPTION (dict of static evidence text)
  plan(seed, tier) -> list[unit]           unit = {"key": {...}, "specs": [spec, ...], "wall_s": float}
  execute(arg) -> {"runs": [runresult, ...]}        runs in a forked child;  arg = {"specs": [...]}
  shrink_candidates(spec) -> list[spec]    one-step simplifications, best first
  pinned(entries) -> list[(entry, key, spec)]   known-finding / fixed regression inputs (optional)
  match_known(spec, violation, entries) -> entry | None         (optional)

runresult = {"verdict": "ok" | "violation" | "skip", "violation": {"class", "message", ...},
             "digest", "line_digest", "steps", "faults": {...}, "probes": {...},
             "states": [...], "nontrivial": bool, "spec": spec-with-schedule (violations only), "sample": ...}
"""
from __future__ import annotations

import importlib
import json
import os
import sys
import time
from collections import Counter
from typing import Any, Optional

from .driver import Pool
from .util import VERIF_DIR, digest, env_float, env_int, jdump

EXIT_OK, EXIT_VIOLATION, EXIT_HARNESS = 0, 1, 2


class Harness(Exception):
    pass


def load_known(prop_id: str) -> list[dict]:
    p = os.path.join(VERIF_DIR, "known_findings.json")
    if not os.path.exists(p):
        return []
    with open(p) as f:
        data = json.load(f)
    return [e for e in data.get("findings", []) if e.get("property") == prop_id]


def _job(mod, key: dict, specs: list[dict], wall_s: float) -> dict:
    return {"key": key, "module": mod.__name__, "fn": "execute", "arg": {"specs": specs}, "wall_s": wall_s}


def _single(pool: Pool, mod, key: dict, spec: dict, wall_s: float = 120.0) -> dict:
    r = pool.run([_job(mod, key, [spec], wall_s)])[0]
    if r is None or not r.get("ok"):
        raise Harness(f"single run failed: {r}\n{pool.logs()}")
    return r["result"]["runs"][0]


def minimise(pool: Pool, mod, key: dict, spec: dict, vclass: str, budget_s: float) -> tuple[dict, dict]:
    """Greedy one-step delta debugging; every candidate runs in a fresh fork and
    counts only if it fails with the same violation class."""
    t_end = time.monotonic() + budget_s
    cur = spec
    evals = 0
    improved = True
    rounds = 0
    while improved and time.monotonic() < t_end:
        improved = False
        rounds += 1
        cands = mod.shrink_candidates(cur)
        B = max(4, pool.workers)
        for s in range(0, len(cands), B):
            if time.monotonic() > t_end:
                break
            batch = cands[s : s + B]
            res = pool.run([_job(mod, key, [c], 120.0) for c in batch])
            evals += len(batch)
            hit = None
            for c, r in zip(batch, res):
                if r is None or not r.get("ok"):
                    continue
                rr = r["result"]["runs"][0]
                if rr.get("verdict") == "violation" and rr["violation"]["class"] == vclass:
                    hit = c  # keep the candidate itself (not the re-recorded schedule): guarantees progress
                    break
            if hit is not None:
                cur = hit
                improved = True
                break
    return cur, {"evals": evals, "rounds": rounds, "budget_exhausted": time.monotonic() >= t_end}


def write_replay(prop_id: str, key: dict, spec: dict, violation: dict, log_digest: str, tag: str, extra: Optional[dict] = None) -> str:
    d = os.path.join(VERIF_DIR, "replays")
    os.makedirs(d, exist_ok=True)
    path = os.path.join(d, f"{prop_id}-{tag}.json")
    with open(path, "w") as f:
        json.dump(
            {"property": prop_id, "world": key, "spec": spec, "violation": violation, "log_digest": log_digest, **(extra or {})},
            f,
            indent=1,
            sort_keys=True,
        )
    return path


def replay_file(mod, path: str) -> int:
    with open(path) as f:
        rp = json.load(f)
    with Pool(workers=1, preload=mod.PRELOAD) as pool:
        rr = _single(pool, mod, rp["world"], rp["spec"])
    want = rp.get("violation", {}).get("class")
    if rr.get("verdict") == "violation":
        same = rr["violation"]["class"] == want
        dig_same = rr.get("log_digest") == rp.get("log_digest")
        print(f"replay: violation class={rr['violation']['class']} (recorded {want}) same_class={same} same_log_digest={dig_same}")
        print("  " + rr["violation"].get("message", "")[:2000])
        print(f"VIOLATION property={mod.ID} replay={path}")
        return EXIT_VIOLATION
    print(f"replay: no violation (recorded class {want})")
    return EXIT_OK


def run_check(mod, tier: str, seed: int) -> int:
    t0 = time.monotonic()
    budget = env_float("VERIF_BUDGET_S", mod.BUDGET_S[tier])
    deadline = t0 + budget
    known = load_known(mod.ID)
    units = mod.plan(seed, tier)
    jobs = [_job(mod, u["key"], u["specs"], u.get("wall_s", 120.0)) for u in units]

    agg: dict[str, Any] = {
        "runs": 0, "skipped": 0, "steps": 0, "faults": Counter(), "probes": Counter(),
        "digests": set(), "line_digests": set(), "nontrivial": set(), "states": set(),
        "violations": [], "harness": [], "samples": [], "extra": Counter(), "logdig": {},
    }

    def on_result(i: int, r: dict) -> None:
        if not r.get("ok"):
            agg["harness"].append((i, r))
            return
        agg["logdig"][i] = [rr.get("log_digest", "") for rr in r["result"]["runs"]]
        for rr in r["result"]["runs"]:
            if rr.get("verdict") == "skip":
                agg["skipped"] += 1
                continue
            agg["runs"] += 1
            agg["steps"] += rr.get("steps", 0)
            agg["faults"].update(rr.get("faults", {}))
            agg["probes"].update(rr.get("probes", {}))
            agg["extra"].update(rr.get("extra", {}))
            d = rr.get("digest")
            if d:
                agg["digests"].add(d)
                if rr.get("nontrivial"):
                    agg["nontrivial"].add(d)
            ld = rr.get("line_digest")
            if ld:
                agg["line_digests"].add(ld)
            for s in rr.get("states", ()):
                agg["states"].add(s)
            if rr.get("sample") is not None and len(agg["samples"]) < 4:
                agg["samples"].append(rr["sample"])
            if rr.get("verdict") == "violation":
                agg["violations"].append((i, rr))

    exit_code = EXIT_OK
    out_lines: list[str] = []
    with Pool(preload=mod.PRELOAD) as pool:
        # 1. pinned regression inputs: known findings and fixed defects
        kf_lines: list[str] = []
        pinned_viol: list[tuple[dict, dict, dict, dict]] = []
        pinned_n = 0
        if True:
            if hasattr(mod, "pinned"):
                pj = mod.pinned(known)
            else:  # default: entries that carry an executable spec
                pj = [(e, e.get("world", {"hash_seed": 0}), e["spec"]) for e in known if "spec" in e]
            res = pool.run([_job(mod, key, [spec], 180.0) for (_e, key, spec) in pj])
            for (entry, key, spec), r in zip(pj, res):
                pinned_n += 1
                if r is None or not r.get("ok"):
                    agg["harness"].append((-1, r))
                    continue
                rr = r["result"]["runs"][0]
                if rr.get("verdict") == "violation":
                    if entry.get("status") == "open":
                        kf_lines.append(f"KNOWN-FINDING: property={mod.ID} {entry['id']}: {entry['what']}")
                    else:
                        pinned_viol.append((entry, key, rr.get("spec") or spec, rr))
                elif entry.get("status") == "open":
                    kf_lines.append(f"NOTE: known finding {entry['id']} of {mod.ID} no longer reproduces on this tree")
        # 2. the search
        pool.run(jobs, deadline=deadline, on_result=on_result, stop_when=lambda: len(agg["violations"]) >= 8 or len(agg["harness"]) > 0)
        planned_runs = sum(len(u["specs"]) for u in units)

        if agg["harness"]:
            i, r = agg["harness"][0]
            print(f"HARNESS-ERROR property={mod.ID} job={i}: {json.dumps(r)[:3000]}")
            print(pool.logs()[-6000:])
            exit_code = EXIT_HARNESS
        else:
            for l in kf_lines:
                print(l)
            # 3. violations: confirm in a fresh fork, minimise, replay, report
            reported: set[str] = set()
            cand: list[tuple[dict, dict, dict]] = []
            for entry, key, spec, rr in pinned_viol:
                cand.append((key, spec, rr))
            for i, rr in sorted(agg["violations"], key=lambda x: x[0]):
                cand.append((units[i]["key"], rr["spec"], rr))
            for key, spec, rr in cand:
                vclass = rr["violation"]["class"]
                if vclass in reported:
                    continue
                again = _single(pool, mod, key, spec)
                if again.get("verdict") != "violation" or again["violation"]["class"] != vclass:
                    print(f"HARNESS-ERROR property={mod.ID} nonreplayable violation class={vclass}: {rr['violation'].get('message','')[:500]}")
                    exit_code = EXIT_HARNESS
                    reported.add(vclass)
                    continue
                spec = again.get("spec") or spec
                mspec, minfo = minimise(pool, mod, key, spec, vclass, env_float("VERIF_MIN_BUDGET_S", 60.0))
                final = _single(pool, mod, key, mspec)
                if final.get("verdict") != "violation" or final["violation"]["class"] != vclass:
                    mspec, final = spec, again
                    minfo["fallback_unminimised"] = True
                mspec = final.get("spec") or mspec
                ke = mod.match_known(mspec, final["violation"], known) if hasattr(mod, "match_known") else None
                if ke is not None and ke.get("status") == "open":
                    print(f"KNOWN-FINDING: property={mod.ID} {ke['id']}: {ke['what']} (re-derived by the search)")
                    reported.add(vclass)
                    continue
                tag = f"{seed}-{vclass}"
                path = write_replay(mod.ID, key, mspec, final["violation"], final.get("log_digest", ""), tag, {"minimise": minfo, "verif_seed": seed, "tier": tier})
                # replay from the file in a fresh zygote: must fail the same way with the same log
                with Pool(workers=1, preload=mod.PRELOAD) as p2:
                    with open(path) as f:
                        rp = json.load(f)
                    chk = _single(p2, mod, rp["world"], rp["spec"])
                if chk.get("verdict") != "violation" or chk["violation"]["class"] != vclass or chk.get("log_digest") != final.get("log_digest"):
                    print(f"HARNESS-ERROR property={mod.ID} replay file does not reproduce exactly: {path}")
                    exit_code = EXIT_HARNESS
                    reported.add(vclass)
                    continue
                print(f"violation class={vclass}: {final['violation'].get('message','')[:1500]}")
                if minfo.get("budget_exhausted"):
                    print("  (minimisation budget exhausted; replay file may not be minimal)")
                print(f"VIOLATION property={mod.ID} replay={path}")
                reported.add(vclass)
                if exit_code == EXIT_OK:
                    exit_code = EXIT_VIOLATION
        zstarts = pool.zygote_starts

    wall = time.monotonic() - t0
    nviol = len(agg["violations"])
    cov = {
        "evaluations": agg["runs"] + pinned_n,
        "distinct_nontrivial": len(agg["nontrivial"]),
        "rule": mod.DESCRIPTION["rule"],
        "samples": agg["samples"] or [{"note": "no sample recorded"}],
        "simulated_runs": agg["runs"],
        "planned_runs": planned_runs,
        "runs_not_executed_budget": max(0, planned_runs - agg["runs"] - agg["skipped"]),
        "skipped_by_generator": agg["skipped"],
        "pinned_regression_inputs": pinned_n,
        "runs_per_hour": int(agg["runs"] / wall * 3600) if wall > 0 else 0,
        "seeds": {"VERIF_SEED": seed, "per_run_seeds": "derived from VERIF_SEED, one per simulated run (see rule)"},
        "logical_steps_yield_points": agg["steps"],
        "simulated_time": "not applicable: sqllineage has no clock, timer or timeout; progress is counted in logical steps (yield points)",
        "faults_fired": dict(sorted(agg["faults"].items())),
        "probes_hit": dict(sorted(agg["probes"].items())),
        "distinct_operation_level_histories": len(agg["digests"]),
        "distinct_line_level_interleavings": len(agg["line_digests"]),
        "distinct_model_states": len(agg["states"]),
        "other_counters": dict(sorted(agg["extra"].items())),
        "zygotes_started": zstarts,
        "batch_log_digest": digest(sorted(agg["logdig"].items())),
        "real_code": mod.DESCRIPTION["real_code"],
        "stubs": mod.DESCRIPTION["stubs"],
        "exhaustive": False,
    }
    ev = {
        "property_id": mod.ID,
        "tier": tier,
        "seed": seed,
        "level": "exploration",
        "coverage": cov,
        "assumptions": mod.DESCRIPTION["assumptions"],
        "wall_s": round(wall, 2),
        "violations": nviol,
    }
    if exit_code != EXIT_HARNESS:
        os.makedirs(os.path.join(VERIF_DIR, "evidence"), exist_ok=True)
        with open(os.path.join(VERIF_DIR, "evidence", f"{mod.ID}.json"), "w") as f:
            json.dump(ev, f, indent=1, sort_keys=True)
    # non-vacuity: required probes must have fired
    missing = [p for p in mod.DESCRIPTION.get("required_probes", {}).get(tier, []) if agg["probes"].get(p, 0) == 0]
    print(
        f"[{mod.ID}] tier={tier} seed={seed} runs={agg['runs']}/{planned_runs} pinned={pinned_n} steps={agg['steps']} "
        f"distinct={len(agg['digests'])} nontrivial={len(agg['nontrivial'])} line_interleavings={len(agg['line_digests'])} "
        f"states={len(agg['states'])} violations={nviol} wall={wall:.1f}s"
    )
    print(f"[{mod.ID}] batch_log_digest={cov['batch_log_digest'][:32]}")
    print(f"[{mod.ID}] faults={dict(sorted(agg['faults'].items()))}")
    print(f"[{mod.ID}] probes={dict(sorted(agg['probes'].items()))}")
    if missing and exit_code == EXIT_OK and cov["runs_not_executed_budget"] == 0:
        print(f"HARNESS-ERROR property={mod.ID} vacuous run: probes never hit: {missing}")
        exit_code = EXIT_HARNESS
    return exit_code


def main(argv: list[str]) -> int:
    import argparse

    ap = argparse.ArgumentParser()
    ap.add_argument("prop")
    ap.add_argument("--tier", default=os.environ.get("VERIF_TIER", "quick"), choices=["quick", "thorough"])
    ap.add_argument("--seed", type=int, default=env_int("VERIF_SEED", 0))
    ap.add_argument("--replay")
    a = ap.parse_args(argv)
    mod = importlib.import_module(f"sim.props.{a.prop.lower()}")
    try:
        if a.replay:
            return replay_file(mod, a.replay)
        return run_check(mod, a.tier, a.seed)
    except Harness as e:
        print(f"HARNESS-ERROR property={a.prop} {e}")
        return EXIT_HARNESS


if __name__ == "__main__":
    sys.exit(main(sys.argv[1:]))
