"""Fixed, committed template set for C14: one or more templates per site at which a Table object is
constructed.  ``{a}`` .. ``{e}`` are table placeholders that render bare (``a``) or qualified
(``S.a``); everything else - including already-qualified names such as ``q.fixed`` and names of
CTEs / derived-table aliases - is literal and identical in both renderings.

The *input* dimension is deliberately not searched (DESIGN.md 4.6): what simulation decides is when
and where the default is read."""

TEMPLATES = [
    # id, dialect, sql
    ("from_item", "ansi", "SELECT * FROM {a}"),
    ("from_item_legacy", "non-validating", "SELECT c1 FROM {a}"),
    ("insert_select", "ansi", "INSERT INTO {a} SELECT * FROM {b}"),
    ("insert_select_legacy", "non-validating", "INSERT INTO {a} SELECT * FROM {b}"),
    ("join_items", "ansi", "INSERT INTO {a} SELECT x.c1, y.c2 FROM {b} x JOIN {c} y ON x.id = y.id"),
    ("join_items_legacy", "non-validating", "INSERT INTO {a} SELECT x.c1, y.c2 FROM {b} x LEFT JOIN {c} y ON x.id = y.id"),
    ("join_unqualified_cols", "ansi", "INSERT INTO {a} SELECT c1, c2 FROM {b} JOIN {c} ON {b}.id = {c}.id"),
    ("comma_join", "ansi", "INSERT INTO {a} SELECT {b}.c1, {c}.c2 FROM {b}, {c} WHERE {b}.id = {c}.id"),
    ("ctas", "ansi", "CREATE TABLE {a} AS SELECT c1, c2 + c3 AS c4 FROM {b}"),
    ("ctas_legacy", "non-validating", "CREATE TABLE {a} AS SELECT c1, c2 + c3 AS c4 FROM {b}"),
    ("view_subquery_where", "ansi", "CREATE VIEW {a} AS SELECT c1 FROM {b} WHERE c2 IN (SELECT c2 FROM {c})"),
    ("mixed_qualified", "ansi", "INSERT INTO {a} SELECT f.c1, g.c2 FROM q.fixed f JOIN {b} g ON f.id = g.id"),
    ("mixed_qualified_legacy", "non-validating", "INSERT INTO q.out SELECT f.c1, g.c2 FROM q.fixed f JOIN {b} g ON f.id = g.id"),
    ("update_const", "ansi", "UPDATE {a} SET c1 = 1 WHERE c2 > 0"),
    ("update_from", "ansi", "UPDATE {a} SET c1 = {b}.c1 FROM {b} WHERE {a}.id = {b}.id"),
    ("update_legacy", "non-validating", "UPDATE {a} SET c1 = 1"),
    ("merge", "ansi", "MERGE INTO {a} USING {b} ON {a}.id = {b}.id WHEN MATCHED THEN UPDATE SET c1 = {b}.c1 "
                      "WHEN NOT MATCHED THEN INSERT (id, c1) VALUES ({b}.id, {b}.c1)"),
    ("merge_alias_legacy", "non-validating", "MERGE INTO {a} t USING {b} s ON t.id = s.id WHEN MATCHED THEN UPDATE SET t.c1 = s.c1"),
    ("merge_using_subquery", "ansi", "MERGE INTO {a} t USING (SELECT id, c1 FROM {b}) s ON t.id = s.id WHEN MATCHED THEN UPDATE SET t.c1 = s.c1"),
    ("cte_shadow", "ansi", "WITH a AS (SELECT c1 FROM {b}) INSERT INTO {c} SELECT c1 FROM a"),
    ("cte_shadow_legacy", "non-validating", "WITH a AS (SELECT c1 FROM {b}) SELECT c1 FROM a"),
    ("cte_two", "ansi", "WITH x AS (SELECT c1 FROM {a}), y AS (SELECT c1 FROM x JOIN {b} ON x.c1 = {b}.c1) INSERT INTO {c} SELECT c1 FROM y"),
    ("derived_table", "ansi", "INSERT INTO {a} SELECT sq.c1 FROM (SELECT c1 FROM {b} WHERE c2 > 0) sq"),
    ("union", "ansi", "INSERT INTO {a} SELECT c1 FROM {b} UNION ALL SELECT c1 FROM {c}"),
    ("create_like", "ansi", "CREATE TABLE {a} LIKE {b}"),
    ("insert_values", "ansi", "INSERT INTO {a} VALUES (1, 2)"),
    ("insert_columns", "ansi", "INSERT INTO {a} (k1, k2) SELECT c1, c2 FROM {b}"),
    ("drop_after_write", "ansi", "INSERT INTO {a} VALUES (1); DROP TABLE {a}"),
    ("drop_wired", "ansi", "INSERT INTO {a} SELECT * FROM {b}; DROP TABLE {b}"),
    ("drop_legacy", "non-validating", "CREATE TABLE {a} AS SELECT 1; DROP TABLE IF EXISTS {a}"),
    ("rename_after_insert", "ansi", "INSERT INTO {a} SELECT * FROM {b}; ALTER TABLE {a} RENAME TO {c}"),
    ("rename_legacy", "non-validating", "INSERT INTO {a} SELECT * FROM {b}; ALTER TABLE {a} RENAME TO {c}"),
    ("rename_multi_mysql", "mysql", "INSERT INTO {a} SELECT * FROM {b}; RENAME TABLE {a} TO {c}, {d} TO {e}"),
    ("chain_two_statements", "ansi", "CREATE TABLE {a} AS SELECT c1 AS k1 FROM {b}; INSERT INTO {c} SELECT k1 FROM {a}"),
    ("chain_wildcard", "ansi", "CREATE TABLE {a} AS SELECT * FROM {b}; INSERT INTO {c} SELECT * FROM {a}"),
    ("select_into_postgres", "postgres", "SELECT c1, c2 INTO {a} FROM {b}"),
    ("select_into_tsql", "tsql", "SELECT c1 INTO {a} FROM {b}"),
    ("copy_redshift", "redshift", "COPY {a} FROM 's3://bucket/path' IAM_ROLE 'arn:aws:iam::0:role/r'"),
    ("insert_overwrite_hive", "hive", "INSERT OVERWRITE TABLE {a} SELECT * FROM {b}"),
    ("exchange_partition_hive", "hive", "ALTER TABLE {a} EXCHANGE PARTITION (p='1') WITH TABLE {b}"),
    ("swap_snowflake", "snowflake", "ALTER TABLE {a} SWAP WITH {b}"),
    ("clone_snowflake", "snowflake", "CREATE TABLE {a} CLONE {b}"),
    ("vertica_swap_partitions", "vertica", "SELECT swap_partitions_between_tables('{a}', 'min-range-value', 'max-range-value', '{b}')"),
    ("vertica_swap_partitions_legacy", "non-validating", "SELECT swap_partitions_between_tables('{a}', 'min-range-value', 'max-range-value', '{b}')"),
    ("sparksql_insert_overwrite", "sparksql", "INSERT OVERWRITE {a} SELECT * FROM {b} JOIN {c} ON {b}.id = {c}.id"),
    ("bigquery_merge", "bigquery", "MERGE {a} t USING {b} s ON t.id = s.id WHEN MATCHED THEN UPDATE SET c1 = s.c1"),
    ("qualifier_is_used_schema", "ansi", "INSERT INTO {a} SELECT * FROM used.tab JOIN {b} ON used.tab.id = {b}.id"),
    # mixed qualification at every two-table site: one operand already qualified (must be unaffected), the other bare
    ("mixed_rename_old_qualified", "ansi", "INSERT INTO q.old SELECT * FROM {b}; ALTER TABLE q.old RENAME TO {a}"),
    ("mixed_rename_new_qualified", "ansi", "INSERT INTO {a} SELECT * FROM {b}; ALTER TABLE {a} RENAME TO q.renamed"),
    ("mixed_rename_old_qualified_legacy", "non-validating", "INSERT INTO q.old SELECT * FROM {b}; ALTER TABLE q.old RENAME TO {a}"),
    ("mixed_rename_new_qualified_legacy", "non-validating", "INSERT INTO {a} SELECT * FROM {b}; ALTER TABLE {a} RENAME TO q.renamed"),
    ("mixed_rename_multi_mysql", "mysql", "INSERT INTO q.old SELECT * FROM {b}; RENAME TABLE q.old TO {a}, {c} TO q.other"),
    ("mixed_insert_qualified_target", "ansi", "INSERT INTO q.out SELECT c1, c2 FROM {a} JOIN q.fixed ON {a}.id = q.fixed.id"),
    ("mixed_ctas_qualified_source", "ansi", "CREATE TABLE {a} AS SELECT * FROM q.fixed"),
    ("mixed_create_like", "ansi", "CREATE TABLE {a} LIKE q.fixed"),
    ("mixed_create_like_rev", "ansi", "CREATE TABLE q.copy LIKE {a}"),
    ("mixed_merge_qualified_target", "ansi", "MERGE INTO q.tgt USING {a} ON q.tgt.id = {a}.id WHEN MATCHED THEN UPDATE SET c1 = {a}.c1"),
    ("mixed_merge_qualified_source", "ansi", "MERGE INTO {a} USING q.src ON {a}.id = q.src.id WHEN MATCHED THEN UPDATE SET c1 = q.src.c1"),
    ("mixed_update_from", "ansi", "UPDATE {a} SET c1 = q.src.c1 FROM q.src WHERE {a}.id = q.src.id"),
    ("mixed_exchange_partition_hive", "hive", "ALTER TABLE q.part EXCHANGE PARTITION (p='1') WITH TABLE {a}"),
    ("mixed_exchange_partition_hive_rev", "hive", "ALTER TABLE {a} EXCHANGE PARTITION (p='1') WITH TABLE q.part"),
    ("mixed_swap_snowflake", "snowflake", "ALTER TABLE q.live SWAP WITH {a}"),
    ("mixed_clone_snowflake", "snowflake", "CREATE TABLE {a} CLONE q.orig"),
    ("mixed_select_into_postgres", "postgres", "SELECT c1 INTO {a} FROM q.fixed"),
    ("mixed_vertica_swap", "vertica", "SELECT swap_partitions_between_tables('q.staging', 'min-range-value', 'max-range-value', '{a}')"),
    ("mixed_drop", "ansi", "INSERT INTO q.out SELECT * FROM {a}; DROP TABLE {a}"),
    ("mixed_chain", "ansi", "CREATE TABLE q.mid AS SELECT c1 AS k1 FROM {a}; INSERT INTO {b} SELECT k1 FROM q.mid"),
    ("mixed_cte", "ansi", "WITH x AS (SELECT c1 FROM q.fixed) INSERT INTO {a} SELECT c1 FROM x"),
    ("mixed_union", "ansi", "INSERT INTO {a} SELECT c1 FROM q.fixed UNION ALL SELECT c1 FROM {b}"),
    # expressions that are sub-queries (analysed by a nested runner), naming one table both bare and qualified with a
    # schema that is also used as a default ("used", "q")
    ("scalar_subquery_both_ways", "ansi", "INSERT INTO {a} SELECT (SELECT max(amount) FROM {b} JOIN used.tb_b ON 1 = 1) AS m, {b}.k FROM {b} JOIN {c} ON {b}.k = {c}.k"),
    ("scalar_subquery_both_ways_legacy", "non-validating", "INSERT INTO {a} SELECT (SELECT max(amount) FROM {b} JOIN used.tb_b ON 1 = 1) AS m, t.k FROM {b} t JOIN {c} u ON t.k = u.k"),
    ("scalar_subquery_q", "ansi", "INSERT INTO {a} SELECT (SELECT min(v) FROM q.tb_c, {c}) AS lo, (SELECT count(*) FROM {c}) AS n, {c}.k FROM {c} JOIN {b} ON {c}.k = {b}.k"),
    ("case_subquery", "ansi", "INSERT INTO {a} SELECT CASE WHEN (SELECT avg(x) FROM {b}) > 0 THEN (SELECT avg(y) FROM used.tb_b) ELSE 0 END AS c1 FROM {b} JOIN {c} ON 1 = 1"),
    ("where_subquery_both_ways", "ansi", "INSERT INTO {a} SELECT k FROM {b} WHERE k IN (SELECT k FROM used.tb_b) AND k NOT IN (SELECT k FROM {c})"),
]

# dialect zoo: every ansi-written template is also analysed under every other sqlfluff dialect (id "<template>@<dialect>");
# each dialect has grammar - and extractor branches - of its own (RENAME nested in a clause, bare new names, ...).
# A (template, dialect) whose bare or qualified rendering does not parse / is not supported there is not comparable
# and is skipped (decided from the clean-process references, counted).
ZOO_DIALECTS = ["athena", "bigquery", "clickhouse", "databricks", "db2", "doris", "duckdb", "exasol", "flink", "greenplum", "hive", "impala", "mariadb",
                "materialize", "mysql", "oracle", "postgres", "redshift", "snowflake", "sparksql", "sqlite", "starrocks", "teradata", "trino", "tsql", "vertica"]
ZOO_EXTRA = [
    ("rename_qualified_to_bare", "ansi", "INSERT INTO q.old SELECT c1 FROM {b} x JOIN {c} y ON x.id = y.id; ALTER TABLE q.old RENAME TO {a}"),
    ("rename_bare_to_bare", "ansi", "INSERT INTO {a} SELECT c1 FROM {b}; ALTER TABLE {a} RENAME TO {c}"),
    ("rename_table_statement", "ansi", "INSERT INTO q.old SELECT * FROM {b}; RENAME TABLE q.old TO {a}"),
    ("truncate_insert", "ansi", "TRUNCATE TABLE {a}; INSERT INTO {a} SELECT * FROM q.fixed"),
    ("delete_using", "ansi", "DELETE FROM {a} WHERE id IN (SELECT id FROM {b})"),
    ("create_view_join", "ansi", "CREATE VIEW {a} AS SELECT x.c1 FROM q.fixed x JOIN {b} y ON x.id = y.id"),
    ("insert_from_cte_first", "ansi", "INSERT INTO {a} WITH x AS (SELECT c1 FROM {b}) SELECT c1 FROM x"),
]
ZOO = [(f"{tid}@{d}", d, sql) for d in ZOO_DIALECTS for (tid, dd, sql) in TEMPLATES + ZOO_EXTRA if dd == "ansi"]

PLACEHOLDERS = ["a", "b", "c", "d", "e"]
# default-schema values: a fresh name, and a name already used as a qualifier in some templates
SCHEMAS = ["s1", "zz9", "used", "q"]


def render(sql: str, schema):
    out = sql
    for p in PLACEHOLDERS:
        out = out.replace("{" + p + "}", (f"{schema}.tb_{p}" if schema else f"tb_{p}"))
    return out
