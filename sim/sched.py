"""Baton-passing deterministic scheduler over real threads.

Exactly one simulated thread runs at any moment.  At every *yield point* the
running thread asks the scheduler who runs next; the answer comes either from a
recorded schedule (replay) or from a seeded strategy (search).  The decision is
recorded as the *index of the simulated thread* that was chosen (or -1 =
"stay"), which keeps a schedule meaningful while programs are being shrunk.

Yield points are produced
  * explicitly by the harness (operation boundaries, collaborator calls), and
  * by ``LineTracer``: ``sys.monitoring`` LINE events enabled only on the code
    objects of chosen sqllineage modules (zero cost elsewhere).

What is real: the threads (so ``threading.local``, exception unwinding and
``with`` blocks are the real thing).  What is simulated: who runs.
"""
from __future__ import annotations

import random
import sys
import threading
import types
from typing import Callable, Optional

_tls = threading.local()


class HarnessError(Exception):
    """Something is wrong with the simulator itself (never a VIOLATION)."""


class StepCap(HarnessError):
    pass


def current() -> Optional["SimThread"]:
    return getattr(_tls, "sim", None)


class SimThread:
    def __init__(self, sched: "Scheduler", idx: int, name: str, fn: Callable[[], None], ident: int):
        self.sched = sched
        self.idx = idx
        self.name = name
        self.fn = fn
        self.ident = ident  # simulated thread identifier (seam S1)
        self.go = threading.Event()
        self.done = False
        self.exc: Optional[BaseException] = None
        self.no_preempt = 0  # >0: LINE events do not yield (harness critical section)
        self.wait_for: list["SimThread"] = []  # not runnable until all of these are done
        self.blocked: Optional[Callable[[], bool]] = None  # parked until this predicate holds (block_until)
        self.in_sched = False  # inside the scheduler: traced code run from a GC finaliser must not yield again
        self.keep_handle = False  # False: the real Thread object is released when the thread ends
        self.shim = None  # what sqllineage sees as this thread's Thread object (ThreadingShim); same lifetime as .real
        self.real = threading.Thread(target=self._main, name=f"sim-{idx}-{name}", daemon=True)
        self.ctx: dict = {}  # property-specific per-thread context

    def _main(self) -> None:
        _tls.sim = self
        self.go.wait()
        self.go.clear()
        try:
            if self.sched.fatal is None:
                self.fn()
        except BaseException as e:  # recorded; judged by the property
            self.exc = e
        finally:
            self.done = True
            self.in_sched = True
            if not self.keep_handle:
                self.real = None  # like a program that does not keep its Thread objects around
                self.shim = None
            self.sched._finished(self)


# ---------------------------------------------------------------------------
# choosers


class Chooser:
    """Decides, at each yield point, which simulated thread runs next."""

    def choose(self, step: int, cur: Optional[int], runnable: list[int], kind: str = "") -> int:
        raise NotImplementedError


class ReplayChooser(Chooser):
    """Follows a recorded list of thread indices; -1 / exhausted / not runnable
    means: stay with the current thread if it can run, else the lowest."""

    def __init__(self, schedule: list[int]):
        self.schedule = schedule

    def choose(self, step, cur, runnable, kind=""):
        c = self.schedule[step] if step < len(self.schedule) else -1
        if c in runnable:
            return c
        if cur in runnable:
            return cur
        return runnable[0]


class RandomChooser(Chooser):
    def __init__(self, rng: random.Random):
        self.rng = rng

    def choose(self, step, cur, runnable, kind=""):
        return runnable[self.rng.randrange(len(runnable))]


class StickyChooser(Chooser):
    def __init__(self, rng: random.Random, p_stay: float = 0.9):
        self.rng = rng
        self.p = p_stay

    def choose(self, step, cur, runnable, kind=""):
        if cur in runnable and self.rng.random() < self.p:
            return cur
        return runnable[self.rng.randrange(len(runnable))]


class RetBiasChooser(Chooser):
    """Race-directed ("insert one remote operation"): most atomicity violations show when ONE complete operation
    of another thread lands between two steps of this thread.  At a yield point inside an operation the chooser
    may switch to another thread, let it run one whole operation (up to its next operation boundary) and then
    come back.  The probability depends on the kind of yield point: highest where a function of the code under
    test has just computed its value and is about to hand it to its caller ("ret": compute-then-publish windows),
    lower between source lines, lowest between bytecode instructions."""

    P = {"ret": 0.35, "line": 0.1, "instr": 0.02, "lookup": 0.2, "tap": 0.2}

    def __init__(self, rng: random.Random, scale: float = 1.0):
        self.rng = rng
        self.scale = scale
        self.hold: Optional[int] = None  # thread that was switched to inside an operation
        self.home: Optional[int] = None  # ... and the thread to come back to
        self.fresh = False

    def choose(self, step, cur, runnable, kind=""):
        if self.hold is not None:
            if cur == self.hold and cur in runnable and (kind != "op" or self.fresh):
                self.fresh = False
                return cur
            home, self.hold, self.home = self.home, None, None
            if home in runnable:
                return home
        if kind == "op" or cur not in runnable:
            # operation boundary: plain random choice with some stickiness
            if cur in runnable and self.rng.random() < 0.6:
                return cur
            return runnable[self.rng.randrange(len(runnable))]
        if self.rng.random() >= self.P.get(kind, 0.05) * self.scale:
            return cur
        others = [t for t in runnable if t != cur]
        if not others:
            return cur
        nxt = others[self.rng.randrange(len(others))]
        self.hold, self.home = nxt, cur
        self.fresh = True
        return nxt


class InsertAtChooser(Chooser):
    """Systematic single insertion: the victim thread runs alone; at its k-th yield point *inside* an operation the
    intruder thread runs one whole operation (up to its next operation boundary), then the victim continues; all
    other threads run afterwards.  Sweeping k over every yield point of the victim's operation covers the whole
    "one remote operation lands between two local steps" space for that pair of operations."""

    def __init__(self, victim: int, k: int, intruder: int, intruder_prefix: int = 0):
        self.victim, self.k, self.intruder = victim, k, intruder
        self.prefix_left = intruder_prefix  # operations the intruder completes before the victim starts
        self.prefix_ops_seen = 0
        self.count = 0
        self.holding = False
        self.inserted = False
        self.fresh = False

    def choose(self, step, cur, runnable, kind=""):
        if self.prefix_left > 0 and self.intruder in runnable:
            # the intruder first completes its prefix: it announces operation 0, 1, ... at "op" yield points
            if cur == self.intruder and kind == "op":
                self.prefix_ops_seen += 1
                if self.prefix_ops_seen > self.prefix_left:
                    self.prefix_left = 0
                    return self.victim if self.victim in runnable else runnable[0]
            return self.intruder
        if self.holding:
            if cur == self.intruder and cur in runnable and (kind != "op" or self.fresh):
                # (a thread that had not started yet announces its first operation before running it)
                self.fresh = False
                return cur
            self.holding = False
            if self.victim in runnable:
                return self.victim
        if cur == self.victim and kind != "op":
            n = self.count
            self.count += 1
            if n == self.k and not self.inserted and self.intruder in runnable:
                self.inserted = True
                self.holding = True
                self.fresh = True
                return self.intruder
        if self.victim in runnable:
            return self.victim
        return runnable[0]


class PCTChooser(Chooser):
    """PCT-style: random distinct priorities, ``d`` priority-change points placed
    at random step indices below ``horizon``; always run the highest-priority
    runnable thread."""

    def __init__(self, rng: random.Random, d: int, horizon: int):
        self.rng = rng
        self.prio: dict[int, float] = {}
        self.change = sorted(rng.randrange(max(1, horizon)) for _ in range(d))
        self.low = 0.0

    def _p(self, t: int) -> float:
        if t not in self.prio:
            self.prio[t] = 1.0 + self.rng.random()
        return self.prio[t]

    def choose(self, step, cur, runnable, kind=""):
        while self.change and self.change[0] <= step:
            self.change.pop(0)
            if cur is not None:
                self.low -= 1.0
                self.prio[cur] = self.low
        return max(runnable, key=lambda t: (self._p(t), -t))


def make_chooser(kind: str, rng: random.Random, horizon: int = 400) -> Chooser:
    if kind == "random":
        return RandomChooser(rng)
    if kind == "sticky":
        return StickyChooser(rng, 0.9)
    if kind == "sticky50":
        return StickyChooser(rng, 0.5)
    if kind == "retbias":
        return RetBiasChooser(rng)
    if kind == "retbias_low":
        return RetBiasChooser(rng, scale=0.3)
    if kind.startswith("pct"):
        return PCTChooser(rng, int(kind[3:] or 2), horizon)
    raise HarnessError(f"unknown scheduling strategy {kind}")


# ---------------------------------------------------------------------------


class Scheduler:
    def __init__(self, chooser: Chooser, max_steps: int = 500_000, hang_s: float = 60.0):
        self.chooser = chooser
        self.max_steps = max_steps
        self.hang_s = hang_s
        self.threads: list[SimThread] = []
        self.cur: Optional[SimThread] = None
        self.step = 0
        self.schedule: list[int] = []  # recorded decisions (thread idx)
        self.switches = 0
        self.all_done = threading.Event()
        self.started = False
        self.on_yield: Optional[Callable[[SimThread, str, object], None]] = None
        self.fatal: Optional[BaseException] = None
        self.trace_digest = None  # optional hashlib object fed with (thread, kind, detail)

    # -- construction -------------------------------------------------------
    def spawn(self, name: str, fn: Callable[[], None], ident: Optional[int] = None, wait_for: Optional[list[SimThread]] = None) -> SimThread:
        idx = len(self.threads)
        t = SimThread(self, idx, name, fn, ident if ident is not None else 1000 + idx)
        t.wait_for = list(wait_for or [])
        self.threads.append(t)
        t.real.start()
        return t

    def runnable(self) -> list[int]:
        return [t.idx for t in self.threads if not t.done and all(w.done for w in t.wait_for) and (t.blocked is None or t.blocked())]

    def unfinished(self) -> list[int]:
        return [t.idx for t in self.threads if not t.done]

    # -- running ------------------------------------------------------------
    def run(self) -> None:
        """Called from the controlling (non-simulated) thread."""
        if not self.threads:
            return
        self.started = True
        first = self._decide(None)
        self.cur = self.threads[first]
        self.cur.go.set()
        if not self.all_done.wait(self.hang_s):
            raise HarnessError(
                "simulated threads did not finish within %.0fs real time (deadlocked baton?) cur=%s step=%d"
                % (self.hang_s, self.cur.name if self.cur else None, self.step)
            )
        if self.fatal is not None:
            raise self.fatal

    def _decide(self, cur: Optional[SimThread], kind: str = "") -> int:
        runnable = self.runnable()
        c = self.chooser.choose(self.step, cur.idx if cur is not None else None, runnable, kind)
        if c not in runnable:
            raise HarnessError("chooser returned a non-runnable thread")
        self.schedule.append(c)
        self.step += 1
        return c

    def yield_point(self, kind: str, detail: object = None) -> None:
        me = current()
        if self.fatal is not None and me is not None:
            raise self.fatal
        if me is None or me is not self.cur or me.done or me.no_preempt or me.in_sched:
            return
        me.in_sched = True
        try:
            self._yield(me, kind, detail)
        finally:
            me.in_sched = False

    def _yield(self, me: SimThread, kind: str, detail: object) -> None:
        if self.step >= self.max_steps:
            self.fatal = StepCap(f"step cap {self.max_steps} exceeded")
            raise self.fatal
        if self.trace_digest is not None:
            self.trace_digest.update(repr((me.idx, kind, detail)).encode())
        if self.on_yield is not None:
            self.on_yield(me, kind, detail)
        nxt = self._decide(me, kind)
        if nxt == me.idx:
            return
        self.switches += 1
        other = self.threads[nxt]
        self.cur = other
        other.go.set()
        me.go.wait()
        me.go.clear()
        if self.fatal is not None:
            raise self.fatal

    def block_until(self, pred: Callable[[], bool]) -> None:
        """Called by a simulated thread: it is not runnable until ``pred()`` holds (a simulated wait on a
        condition owned by the harness, e.g. "stay inside this scope until the others are done")."""
        me = current()
        if me is None:
            return
        me.blocked = pred
        try:
            while not pred():
                if not self.runnable():
                    self.fatal = HarnessError("every simulated thread is blocked")
                    raise self.fatal
                saved, me.no_preempt = me.no_preempt, 0
                try:
                    self.yield_point("block")
                finally:
                    me.no_preempt = saved
        finally:
            me.blocked = None

    def _finished(self, me: SimThread) -> None:
        if self.fatal is None and not self.runnable() and self.unfinished():
            self.fatal = HarnessError("simulated threads blocked forever: %s" % self.unfinished())
        if self.fatal is not None or not self.runnable():
            # release everybody so that real threads can unwind
            if self.fatal is not None:
                for t in self.threads:
                    if not t.done:
                        t.go.set()
                self.all_done.set()
            if not self.unfinished():
                self.all_done.set()
            return
        try:
            nxt = self._decide(me)
        except BaseException as e:  # pragma: no cover
            self.fatal = e
            self.all_done.set()
            return
        other = self.threads[nxt]
        self.cur = other
        other.go.set()


# ---------------------------------------------------------------------------
# lock seam: a lock created by sqllineage code is a scheduling point owned by the simulator


LOCK_STATS = {"created": 0, "acquired": 0, "contended": 0}


class SimLock:
    """Stands in for ``threading.Lock`` / ``RLock`` objects that *sqllineage* code creates.  Simulated threads
    run one at a time, so ownership is tracked logically; a simulated thread that finds the lock taken is parked
    with ``block_until`` (a scheduling decision) instead of blocking the real thread that holds the baton, which
    would stall the whole simulation.  Outside a simulation it is an ordinary lock."""

    def __init__(self, reentrant: bool = False):
        import _thread

        self._real = _thread.RLock() if reentrant else _thread.allocate_lock()
        self._reentrant = reentrant
        self._holder: object = None
        self._depth = 0
        LOCK_STATS["created"] += 1

    def acquire(self, blocking: bool = True, timeout: float = -1) -> bool:
        me = current()
        if me is None or me.done:
            return self._real.acquire(blocking, timeout)
        if self._holder is not None and not (self._reentrant and self._holder is me):
            if not blocking or timeout == 0:
                return False
            LOCK_STATS["contended"] += 1
            if self._holder is me:
                me.sched.fatal = HarnessError("a simulated thread acquires a non-reentrant lock it already holds")
                raise me.sched.fatal
            me.sched.block_until(lambda: self._holder is None)
        if not self._real.acquire(False):
            self._real.acquire()
        self._holder = me
        self._depth += 1
        LOCK_STATS["acquired"] += 1
        return True

    def release(self) -> None:
        me = current()
        if me is not None and self._holder is not None:
            self._depth -= 1
            if self._depth <= 0:
                self._depth = 0
                self._holder = None
        self._real.release()

    def locked(self) -> bool:
        return self._holder is not None or (self._real.locked() if hasattr(self._real, "locked") else False)

    __enter__ = acquire

    def __exit__(self, *a) -> None:
        self.release()


def install_lock_seam(prefix: str = "sqllineage") -> None:
    """``threading.Lock()`` / ``threading.RLock()`` called from a module whose name starts with ``prefix`` return a
    ``SimLock``; every other caller gets the real thing.  Must run before the modules are imported (module-level locks)."""
    if getattr(threading, "_verif_lock_seam", False):
        return
    real_lock, real_rlock = threading.Lock, threading.RLock

    def _from_prefix() -> bool:
        f = sys._getframe(2)
        return str(f.f_globals.get("__name__", "")).startswith(prefix)

    def Lock(*a, **k):  # noqa: N802
        return SimLock(False) if _from_prefix() else real_lock(*a, **k)

    def RLock(*a, **k):  # noqa: N802
        return SimLock(True) if _from_prefix() else real_rlock(*a, **k)

    threading.Lock = Lock  # type: ignore
    threading.RLock = RLock  # type: ignore
    threading._verif_lock_seam = True  # type: ignore


class _ShimThread:
    """What ``threading.enumerate()`` / ``current_thread()`` show of a simulated thread."""

    def __init__(self, st: "SimThread"):
        import weakref

        self._st_ref = weakref.ref(st)  # (no cycle: dropping SimThread.shim frees this object at once)
        self.ident = st.ident
        self.native_id = st.ident
        self.name = st.name
        self.daemon = True

    def is_alive(self) -> bool:
        st = self._st_ref()
        return st is not None and not st.done

    def __repr__(self) -> str:
        return f"<SimThread {self.name} ident={self.ident}>"


class ThreadingShim:
    """What a sqllineage module sees as ``threading`` (seam S1): the real module, except that thread *identity* is
    the simulator's - ``get_ident()`` is the simulated identifier (so that identifier reuse can be scheduled) and
    ``enumerate()`` / ``current_thread()`` / ``active_count()`` list the simulated threads that are alive, by that
    identifier.  A simulated thread whose ``ctx["foreign"]`` is set is a thread the ``threading`` module does not know
    (started through ``_thread.start_new_thread`` or created by C code - a uWSGI / mod_wsgi request thread): it has an
    identifier like any other but is not listed."""

    def __getattr__(self, name):
        return getattr(threading, name)

    @staticmethod
    def get_ident():
        t = current()
        return t.ident if t is not None else threading.get_ident()

    @staticmethod
    def _alive():
        t = current()
        if t is None:
            return None
        return [x for x in t.sched.threads if not x.done and all(w.done for w in x.wait_for) and not x.ctx.get("foreign")]

    @staticmethod
    def _obj(x):
        # one stable object per simulated thread, released when the thread ends unless somebody keeps its handle
        # (weakref.finalize / WeakKeyDictionary on Thread objects then behave as they do on real ones)
        if x.shim is None:
            x.shim = _ShimThread(x)
        return x.shim

    def enumerate(self):
        alive = self._alive()
        if alive is None:
            return threading.enumerate()
        return [threading.main_thread()] + [self._obj(x) for x in alive]

    def active_count(self):
        alive = self._alive()
        return threading.active_count() if alive is None else 1 + len(alive)

    def current_thread(self):
        t = current()
        return threading.current_thread() if t is None else self._obj(t)


class no_preempt:
    """Context manager: LINE events inside do not yield (oracle probes)."""

    def __enter__(self):
        t = current()
        if t is not None:
            t.no_preempt += 1
        return self

    def __exit__(self, *a):
        t = current()
        if t is not None:
            t.no_preempt -= 1


# ---------------------------------------------------------------------------
# line-level pre-emption


def code_objects_of_module(mod: types.ModuleType) -> list[types.CodeType]:
    """All code objects defined in ``mod``'s file, found through the module's
    namespace (functions, classes, nested code constants)."""
    fname = getattr(mod, "__file__", None)
    out: dict[int, types.CodeType] = {}

    def add_code(c: types.CodeType) -> None:
        if c.co_filename != fname or id(c) in out:
            return
        out[id(c)] = c
        for k in c.co_consts:
            if isinstance(k, types.CodeType):
                add_code(k)

    seen: set[int] = set()

    def visit(obj: object, depth: int = 0) -> None:
        if id(obj) in seen or depth > 4:
            return
        seen.add(id(obj))
        if isinstance(obj, (staticmethod, classmethod)):
            visit(obj.__func__, depth + 1)
        elif isinstance(obj, property):
            for f in (obj.fget, obj.fset, obj.fdel):
                if f is not None:
                    visit(f, depth + 1)
        elif isinstance(getattr(obj, "func", None), types.FunctionType):  # functools.cached_property / partial
            visit(obj.func, depth + 1)
        elif isinstance(obj, types.FunctionType):
            add_code(obj.__code__)
            if obj.__closure__:
                for cell in obj.__closure__:
                    try:
                        visit(cell.cell_contents, depth + 1)
                    except ValueError:
                        pass
            w = getattr(obj, "__wrapped__", None)
            if w is not None:
                visit(w, depth + 1)
        elif isinstance(obj, type):
            if getattr(obj, "__module__", None) == mod.__name__:
                for v in list(vars(obj).values()):
                    visit(v, depth + 1)
        elif not isinstance(obj, (types.ModuleType, str, bytes, int, float, dict, list, tuple, set)):
            cls = type(obj)
            if getattr(cls, "__module__", None) == mod.__name__:
                visit(cls, depth + 1)

    for v in list(vars(mod).values()):
        visit(v)
    return sorted(out.values(), key=lambda c: (c.co_firstlineno, c.co_name))


def code_objects_of_class(cls: type) -> list[types.CodeType]:
    """Code objects of the methods / properties defined by one class (incl. name-mangled helpers)."""
    import inspect

    mod = inspect.getmodule(cls)
    fname = getattr(mod, "__file__", None)
    out: dict[int, types.CodeType] = {}

    def add_code(c: types.CodeType) -> None:
        if c.co_filename != fname or id(c) in out:
            return
        out[id(c)] = c
        for k in c.co_consts:
            if isinstance(k, types.CodeType):
                add_code(k)

    for v in list(vars(cls).values()):
        if isinstance(v, (staticmethod, classmethod)):
            v = v.__func__
        if isinstance(v, property):
            for f in (v.fget, v.fset, v.fdel):
                if f is not None:
                    add_code(f.__code__)
        elif isinstance(v, types.FunctionType):
            add_code(v.__code__)
        elif isinstance(getattr(v, "func", None), types.FunctionType):
            add_code(v.func.__code__)
    return sorted(out.values(), key=lambda c: (c.co_firstlineno, c.co_name))


class LineTracer:
    """Turns events of selected code objects into yield points.

    granularity "line": LINE events (pre-emption between source lines) + PY_RETURN events (a function of the
    code under test has computed its value and is about to hand it to its caller - the window in which
    compute-then-publish races live);  granularity "instr": every bytecode INSTRUCTION + PY_RETURN, which is
    the granularity at which the GIL can really switch threads."""

    def __init__(self, sched: Scheduler, modules: list[types.ModuleType], granularity: str = "line"):
        self.sched = sched
        self.codes: list[types.CodeType] = []
        for m in modules:
            self.codes.extend(code_objects_of_class(m) if isinstance(m, type) else code_objects_of_module(m))
        self.enabled = False
        self.mon = sys.monitoring
        self.tool = self.mon.DEBUGGER_ID
        self.lines = 0
        self.granularity = granularity

    def install(self) -> None:
        mon = self.mon
        ev = mon.events
        if mon.get_tool(self.tool) is not None:
            mon.free_tool_id(self.tool)
        mon.use_tool_id(self.tool, "verif-sim")
        mask = ev.PY_RETURN
        mon.register_callback(self.tool, ev.PY_RETURN, self._cb_ret)
        if self.granularity == "instr":
            mask |= ev.INSTRUCTION
            mon.register_callback(self.tool, ev.INSTRUCTION, self._cb_instr)
        else:
            mask |= ev.LINE
            mon.register_callback(self.tool, ev.LINE, self._cb)
        self.mask = mask
        for c in self.codes:
            mon.set_local_events(self.tool, c, mask)
        self.enabled = True

    def uninstall(self) -> None:
        mon = self.mon
        ev = mon.events
        self.enabled = False
        for c in self.codes:
            mon.set_local_events(self.tool, c, 0)
        for e in (ev.LINE, ev.PY_RETURN, ev.INSTRUCTION):
            mon.register_callback(self.tool, e, None)
        mon.free_tool_id(self.tool)

    def _ok(self):
        if not self.enabled:
            return None
        t = current()
        if t is None or t.no_preempt or t.done:
            return None
        return t

    def _cb(self, code: types.CodeType, lineno: int):
        if self._ok() is None:
            return None
        self.lines += 1
        self.sched.yield_point("line", (code.co_name, lineno))
        return None

    def _cb_instr(self, code: types.CodeType, offset: int):
        if self._ok() is None:
            return None
        self.lines += 1
        self.sched.yield_point("instr", (code.co_name, offset))
        return None

    def _cb_ret(self, code: types.CodeType, offset: int, retval: object):
        if self._ok() is None:
            return None
        self.sched.yield_point("ret", (code.co_name, offset))
        return None
