"""Seeded generator of multi-statement scripts over a small table universe.

Design points (DESIGN.md 4.2/4.5):
  * intermediate tables come from a small shared universe (s.t1 .. s.t4) so that
    different runs collide on names, while column names defined by a statement
    are unique to (run tag, statement) -- a column that leaks from one run into
    another names its origin;
  * later statements read earlier targets with ``*``, ``t.*``, qualified and
    unqualified columns, so results are *sensitive* to what the session knows;
  * sub-queries are pairwise textually distinct and base tables never share a
    column name (the shapes pinned as known findings are not re-derived).
"""
from __future__ import annotations

BASE_META = {
    "b.x1": ["id1", "a1", "a2"],
    "b.x2": ["id2", "b1", "b2"],
    "b.x3": ["id3", "c1"],
}
UNIVERSE = ["s.t1", "s.t2", "s.t3", "s.t4"]

BAD_UNSUPPORTED = "CREATE UNIQUE INDEX ix_bad ON s.t1 (c)"
BAD_UNPARSABLE = "SELECT FROM WHERE"


class ScriptGen:
    def __init__(self, g, tag: str, universe=None, base=None, allow_drop_rename=True, allow_cte=True, known=None):
        self.g = g
        self.tag = tag
        self.universe = list(universe or UNIVERSE)
        self.base = dict(base if base is not None else BASE_META)
        # what the metadata provider knows about the base tables (defaults to everything)
        self.known = dict(known) if known is not None else dict(self.base)
        self.cols: dict[str, list[str]] = {}  # columns this script itself defined, per table
        self.n = 0
        self.sub = 0
        self.allow_drop_rename = allow_drop_rename
        self.allow_cte = allow_cte
        self.written: list[str] = []
        self.annot: list[dict] = []  # per generated statement: what the generator knows about it
        self.strict_subquery_cols = False  # True: a derived table is only asked for columns it projects
        self.shadow_targets: list[str] = []  # base tables that CTAS / CREATE VIEW may re-create
        self._sel: dict = {}

    # -- helpers
    def newcol(self) -> str:
        self.n += 1
        return f"c_{self.tag}_{self.n}"

    def known_cols(self, t: str) -> list[str]:
        return self.cols.get(t) or self.known.get(t) or []

    def real_cols(self, t: str) -> list[str]:
        return self.cols.get(t) or self.base.get(t) or []

    def pick_src_table(self) -> str:
        g = self.g
        r = g.random()
        if self.written and r < 0.55:
            return g.choice(self.written)
        if r < 0.8:
            return g.choice(sorted(self.base))
        return g.choice(self.universe)

    def colref(self, t: str) -> str:
        kc = self.real_cols(t)
        if kc and (self.g.random() < 0.9 or (self.strict_subquery_cols and t.startswith("__sub"))):
            return self.g.choice(kc)
        return f"u_{self.tag}_{self.g.randrange(3)}"

    # -- select bodies: returns (sql, output column names or None if unknown)
    def select(self, depth=0):
        g = self.g
        shape = g.random()
        if shape < 0.5 or depth > 0:
            t = self.pick_src_table()
            alias = g.choice(["", "", " a0"])
            q = alias.strip() or t
            srcs = [(t, q)]
            from_sql = f"{t}{alias}"
        elif shape < 0.85:
            t1 = self.pick_src_table()
            t2 = self.pick_src_table()
            tries = 0
            while t2 == t1 and tries < 5:
                t2 = g.choice(sorted(self.base) + self.universe)
                tries += 1
            if t2 == t1:
                t2 = "b.x3" if t1 != "b.x3" else "b.x2"
            srcs = [(t1, "l"), (t2, "r")]
            from_sql = f"{t1} l JOIN {t2} r ON l.{self.colref(t1)} = r.{self.colref(t2)}"
        else:
            # derived table, textually unique
            t = self.pick_src_table()
            self.sub += 1
            c1, c2 = self.colref(t), self.colref(t)
            n1, n2 = f"d_{self.tag}_{self.sub}a", f"d_{self.tag}_{self.sub}b"
            srcs = [(f"__sub{self.sub}", f"sq{self.sub}")]
            self.cols[f"__sub{self.sub}"] = [n1, n2]
            from_sql = f"(SELECT {c1} AS {n1}, {c2} AS {n2} FROM {t}) sq{self.sub}"
        items = []
        out: list[str] | None = []
        kind = g.random()
        self._sel = {"srcs": [t for t, _ in srcs], "star": False, "wild": False}
        if kind < 0.22:
            items.append("*")
            out = None
            self._sel["star"] = True
            self._sel["wild"] = True
            if len(srcs) == 1 and self.known_cols(srcs[0][0]):
                out = list(self.known_cols(srcs[0][0]))
        elif kind < 0.34 and len(srcs) == 2:
            which = g.choice([0, 1])
            self._sel["wild"] = True
            items.append(f"{srcs[which][1]}.*")
            oc = self.known_cols(srcs[which][0])
            out = list(oc) if oc else None
            if g.random() < 0.5:
                o = srcs[1 - which]
                c = self.colref(o[0])
                nc = self.newcol()
                items.append(f"{o[1]}.{c} AS {nc}")
                if out is not None:
                    out.append(nc)
        else:
            for _ in range(g.choice([1, 2, 2, 3])):
                t, q = g.choice(srcs)
                c = self.colref(t)
                form = g.random()
                if form < 0.3:
                    nc = self.newcol()
                    items.append(f"{q}.{c} AS {nc}")
                    out.append(nc)
                elif form < 0.5:
                    # unqualified column (resolution may need metadata when there are two sources)
                    nc = self.newcol()
                    items.append(f"{c} AS {nc}")
                    out.append(nc)
                elif form < 0.65:
                    if c not in out:
                        items.append(c if len(srcs) == 1 or g.random() < 0.5 else f"{q}.{c}")
                        out.append(c)
                    else:
                        nc = self.newcol()
                        items.append(f"{q}.{c} AS {nc}")
                        out.append(nc)
                else:
                    t2, q2 = g.choice(srcs)
                    c2 = self.colref(t2)
                    nc = self.newcol()
                    fn = g.choice(["{a} + {b}", "coalesce({a}, {b})", "CASE WHEN {a} > 0 THEN {b} ELSE 0 END", "concat({a}, {b})"])
                    items.append(fn.format(a=f"{q}.{c}", b=f"{q2}.{c2}") + f" AS {nc}")
                    out.append(nc)
        where = ""
        if g.random() < 0.25:
            t, q = srcs[0]
            where = f" WHERE {q}.{self.colref(t)} > 0"
        return f"SELECT {', '.join(items)} FROM {from_sql}{where}", out

    def target(self) -> str:
        return self.g.choice(self.universe)

    def stmt(self) -> str:
        g = self.g
        r = g.random()
        if r < 0.62:
            kind = g.choice(["ctas", "insert", "insert", "view", "insert_cols"])
            sel, out = self.select()
            if self.allow_cte and g.random() < 0.12:
                self.sub += 1
                cte = f"cte{self.sub}"
                t = self.pick_src_table()
                c = self.colref(t)
                nc = self.newcol()
                sel, out = f"WITH {cte} AS (SELECT {c} AS {nc} FROM {t}) SELECT {nc} FROM {cte}", [nc]
                kind = "insert"
            t = self.target()
            if self.shadow_targets and kind in ("ctas", "view") and g.random() < 0.15:
                # CREATE a table the provider also knows: the script's definition must shadow the provider's
                t = g.choice(self.shadow_targets)
            if kind == "ctas":
                sql = f"CREATE TABLE {t} AS {sel}"
            elif kind == "view":
                sql = f"CREATE VIEW {t} AS {sel}"
            elif kind == "insert_cols" and out:
                names = [self.newcol() for _ in out]
                sql = f"INSERT INTO {t} ({', '.join(names)}) {sel}"
                out = names
            else:
                sql = f"INSERT INTO {t} {sel}"
            if out:
                self.cols[t] = list(out)
            elif t in self.shadow_targets:
                self.known.pop(t, None)  # re-created with columns the generator cannot name: nothing is known any more
            if t not in self.written:
                self.written.append(t)
            a = {"kind": kind, "target": t, "out": list(out) if out else None, "srcs": list(self._sel.get("srcs", [])),
                 "star": bool(self._sel.get("star")) and kind != "insert_cols" and not sql.startswith("INSERT INTO %s WITH" % t),
                 "wild": bool(self._sel.get("wild"))}
            if sql.startswith("INSERT INTO %s WITH" % t):
                a["srcs"], a["star"], a["wild"] = [], False, False
            self.annot.append(a)
            return sql
        if r < 0.72:
            sel, _ = self.select()
            return sel
        if r < 0.79:
            t = self.target()
            return f"UPDATE {t} SET {self.colref(t)} = 1"
        if r < 0.86:
            t = self.target()
            s = self.pick_src_table()
            if s == t:
                s = "b.x1"
            return (
                f"MERGE INTO {t} tg USING {s} sr ON tg.{self.colref(t)} = sr.{self.colref(s)} "
                f"WHEN MATCHED THEN UPDATE SET {self.colref(t)} = sr.{self.colref(s)}"
            )
        if r < 0.91:
            t = self.target()
            return f"INSERT INTO {t} VALUES (1, 2)"
        if self.allow_drop_rename:
            if r < 0.96:
                t = g.choice(self.universe)
                self.cols.pop(t, None)
                return f"DROP TABLE {t}"
            a = g.choice(self.universe)
            b = g.choice([u for u in self.universe if u != a])
            if a in self.cols:
                self.cols[b] = self.cols.pop(a)
            return f"ALTER TABLE {a} RENAME TO {b}"
        sel, _ = self.select()
        return sel

    def script(self, n: int) -> list[str]:
        out = []
        for _ in range(n):
            k = len(self.annot)
            out.append(self.stmt())
            if len(self.annot) == k:
                self.annot.append({"kind": "other", "target": None, "out": None, "srcs": [], "star": False, "wild": False})
        return out
