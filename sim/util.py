"""Small shared helpers: seeded streams, digests, paths."""
from __future__ import annotations

import hashlib
import json
import os
import random

VERIF_DIR = os.path.dirname(os.path.dirname(os.path.abspath(__file__)))
REPO_DIR = os.environ.get("VERIF_REPO", "/repo")
PYTHON = os.environ.get("VERIF_PYTHON", "/venv/bin/python")
GUARD = "SQLLINEAGE_VERIF"


def stream(seed: object, name: str) -> random.Random:
    """A named PRNG stream derived from one seed.  Seeding with a *string*
    uses sha512 of the text, so it is independent of PYTHONHASHSEED."""
    return random.Random(f"{seed}:{name}")


def jdump(obj: object) -> str:
    return json.dumps(obj, sort_keys=True, separators=(",", ":"), default=str)


def digest(obj: object) -> str:
    return hashlib.sha256(jdump(obj).encode()).hexdigest()


def short(obj: object, n: int = 16) -> str:
    return digest(obj)[:n]


def env_int(name: str, default: int) -> int:
    try:
        return int(os.environ.get(name, default))
    except ValueError:
        return default


def env_float(name: str, default: float) -> float:
    try:
        return float(os.environ.get(name, default))
    except ValueError:
        return default
