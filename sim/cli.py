"""Entry point used by /verif/check (kept tiny so that nothing is imported twice)."""
import sys

from sim.framework import main

if __name__ == "__main__":
    sys.exit(main(sys.argv[1:]))
