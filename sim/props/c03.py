"""C03 -- script summary roles follow from per-statement reads and writes.

History clause only (DESIGN.md 4.4): the combined table graph is an accumulator
fed one statement at a time, with order-sensitive DROP / RENAME.  Histories of
abstract statements are applied operation by operation to the real code and to
a small *partial* reference model (a set of allowed states), through two paths:

  (a) holder level -- StatementLineageHolder built with the public add_read /
      add_write / add_drop / add_rename, SQLLineageHolder.of(...) evaluated after
      every appended operation;
  (b) end to end -- the history rendered to real SQL and run through
      LineageRunner; the statement tap hands the harness each statement's
      read / write / drop / rename as the analyzer reported them, so the model
      is fed facts, not expectations about the parser.

Fault dimension (degenerate, said plainly): reorder / duplicate delivery of
statements, and the interpreter's hash seed.
"""
from __future__ import annotations

import itertools
import json

from ..util import digest, short, stream

ID = "C03"
PRELOAD = ["sqllineage.runner", "sim.props.c03"]
BUDGET_S = {"quick": 240.0, "thorough": 1500.0}

DESCRIPTION = {
    "rule": (
        "seeded random histories of 1-6 abstract statements over a 3-4 table universe: rw(read set, at most one write) incl. "
        "self-loops, drop(t), single- and multi-pair rename; biased toward drop/rename after wiring, re-creation after drop; each "
        "history is applied prefix by prefix at holder level (public add_* API + SQLLineageHolder.of) and, for a subset, rendered to "
        "real SQL and run through LineageRunner with the statement tap feeding the model (histories without drop/rename also with column-bearing "
        "renderings over 4-5 tables - unqualified columns from joins, explicit column lists, stray qualifiers spelled like another table of the "
        "script - with and without a metadata provider); the implementation must match some allowed "
        "state of the partial reference model after every operation; histories without drop/rename are additionally delivered "
        "permuted and with duplicates. Distinct = distinct operation history; non-trivial iff it contains a drop or rename after "
        "wiring, a self-loop, a re-creation after drop, or a reorder/duplicate delivery check."
    ),
    "real_code": ["sqllineage/core/holders.py (StatementLineageHolder, SQLLineageHolder._build_digraph, role predicates)",
                  "sqllineage/runner.py + sqlfluff analyzer (SQL path)", "networkx"],
    "stubs": ["none at holder level; SQL path uses the guarded statement tap of /repo to read per-statement facts", "thread scheduling (baton) in the shared-runner world"],
    "assumptions": [
        "the model is partial by design: RENAME outside the determined zone (single/multi pair, source present, wired, no self-loop, not tagged source-only/target-only, fresh target name) only requires the old name to be gone, and the rest of that history is checked for weak invariants only",
        "DROP of a table that was never read and never wired may or may not remove it (the statement says 'only if')",
        "an exception in the loose zone is not judged here (C10 is not claimed by this family)",
        "crash-and-retry world: the first evaluation is interrupted by an exception out of a statement-boundary tap (once or twice); the same runner asked again must give the uninterrupted answer",
        "this is seeded sampling of histories, not the exhaustive enumeration the quantifier describes (that would be model checking)",
    ],
    "required_probes": {
        "quick": ["drop_after_wiring", "drop_removed", "rename_determined", "rename_loose", "selfloop", "recreate_after_drop",
                  "reorder_checked", "duplicate_checked", "multi_pair_rename", "sql_path", "shared_runner_threads", "first_evaluation_interrupted_then_retried", "sql_column_bearing_history", "constant_write_beside_ambiguous_column", "stray_qualifier_names_a_table_of_the_script",
                  "directory_read_and_overwritten_by_one_statement"],
        "thorough": ["drop_after_wiring", "drop_removed", "rename_determined", "rename_loose", "selfloop", "recreate_after_drop",
                     "reorder_checked", "duplicate_checked", "multi_pair_rename", "sql_path"],
    },
}

SCHEMA = "<default>"


def q(t: str) -> str:
    return f"{SCHEMA}.{t}"


# ---------------------------------------------------------------------------
# reference model: a set of allowed states


class State:
    __slots__ = ("E", "SO", "TO", "read", "wired")

    def __init__(self, E=frozenset(), SO=frozenset(), TO=frozenset(), read=frozenset(), wired=frozenset()):
        self.E, self.SO, self.TO, self.read, self.wired = E, SO, TO, read, wired

    def key(self):
        return (self.E, self.SO, self.TO, self.read, self.wired)

    def roles(self):
        ins = {w for _, w in self.E}
        outs = {r for r, _ in self.E}
        loops = {r for r, w in self.E if r == w}
        src = {t for t in outs if t not in ins} | set(self.SO) | loops
        tgt = {t for t in ins if t not in outs} | set(self.TO) | loops
        mid = {t for t in ins if t in outs} - loops
        return (tuple(sorted(src)), tuple(sorted(tgt)), tuple(sorted(mid)), tuple(sorted(self.E)))

    def present(self, t):
        return t in self.SO or t in self.TO or any(t in e for e in self.E)


def step_rw(s: State, R, w) -> State:
    R = frozenset(R)
    if R and w is not None:
        E = s.E | {(r, w) for r in R}
        return State(E, s.SO, s.TO, s.read | R, s.wired | R | {w})
    if R:
        return State(s.E, s.SO | R, s.TO, s.read | R, s.wired)
    if w is not None:
        return State(s.E, s.SO, s.TO | {w}, s.read, s.wired)
    return s


def step_drop(s: State, t) -> list[State]:
    if t in s.read or t in s.wired:
        return [s]
    removed = State(s.E, s.SO - {t}, s.TO - {t}, s.read, s.wired)
    return [s] if removed.key() == s.key() else [s, removed]


def rename_determined(s: State, x, y) -> str:
    """'noop' (neither name present), 'relabel' (determined), or 'loose'."""
    if not s.present(x) and not s.present(y):
        return "noop"
    wired = any(x in e for e in s.E)
    loop = (x, x) in s.E
    if s.present(x) and wired and not loop and x not in s.SO and x not in s.TO and not s.present(y) and x != y:
        return "relabel"
    return "loose"


def step_relabel(s: State, x, y) -> State:
    m = lambda t: y if t == x else t
    E = frozenset((m(r), m(w)) for r, w in s.E)
    read = frozenset(m(t) for t in s.read)
    wired = frozenset(m(t) for t in s.wired)
    return State(E, s.SO, s.TO, read, wired)


class Model:
    def __init__(self):
        self.states = [State()]
        self.loose = False
        self.probes = {}

    def probe(self, n):
        self.probes[n] = self.probes.get(n, 0) + 1

    def apply(self, op):
        """op = ("rw", [reads], write|None) | ("drop", [tables]) | ("rename", [[x, y], ...])"""
        kind = op[0]
        if kind == "rw":
            R, w = op[1], op[2]
            if w is not None and w in R:
                self.probe("selfloop")
            self.states = [step_rw(s, R, w) for s in self.states]
        elif kind == "drop":
            for t in op[1]:
                new = []
                for s in self.states:
                    if t in s.read or t in s.wired:
                        self.probe("drop_after_wiring")
                    new.extend(step_drop(s, t))
                self.states = _dedup(new)
        elif kind == "rename":
            if len(op[1]) > 1:
                self.probe("multi_pair_rename")
            for x, y in op[1]:
                new = []
                for s in self.states:
                    d = rename_determined(s, x, y)
                    if d == "noop":
                        new.append(s)
                    elif d == "relabel":
                        self.probe("rename_determined")
                        new.append(step_relabel(s, x, y))
                    else:
                        self.loose = True
                        self.probe("rename_loose")
                        new.append(s)
                self.states = _dedup(new)
        else:
            raise ValueError(op)


def _dedup(states):
    seen = {}
    for s in states:
        seen.setdefault(s.key(), s)
    return list(seen.values())[:64]


# ---------------------------------------------------------------------------
# implementation side


def observe_holder(sqlholder):
    src = tuple(sorted(str(t) for t in sqlholder.source_tables))
    tgt = tuple(sorted(str(t) for t in sqlholder.target_tables))
    mid = tuple(sorted(str(t) for t in sqlholder.intermediate_tables))
    edges = tuple(sorted((str(a), str(b)) for a, b in sqlholder.table_lineage_graph.edges))
    return (src, tgt, mid, edges)


def observe_runner(runner):
    src = tuple(sorted(str(t) for t in runner.source_tables))
    tgt = tuple(sorted(str(t) for t in runner.target_tables))
    mid = tuple(sorted(str(t) for t in runner.intermediate_tables))
    cy = runner.to_cytoscape()
    edges = tuple(sorted((e["data"]["source"], e["data"]["target"]) for e in cy if "source" in e["data"]))
    return (src, tgt, mid, edges)


def weak_invariants(obs, universe, gone=()):
    src, tgt, mid, edges = obs
    ins = {w for _, w in edges}
    outs = {r for r, _ in edges}
    loops = {r for r, w in edges if r == w}
    allt = set(src) | set(tgt) | set(mid) | ins | outs
    bad = [t for t in allt if t not in universe]
    if bad:
        return f"tables outside the universe appear: {bad}"
    for t in gone:
        if t in allt:
            return f"renamed-away table {t} is still present"
    for t in mid:
        if not (t in ins and t in outs):
            return f"{t} reported intermediate without both an incoming and an outgoing edge"
        if t in loops:
            return f"{t} has a self-loop but is reported intermediate"
    for t in ins - outs:
        if t not in tgt:
            return f"{t} has only incoming edges but is not reported as target"
    for t in outs - ins:
        if t not in src:
            return f"{t} has only outgoing edges but is not reported as source"
    for t in loops:
        if t not in src or t not in tgt:
            return f"{t} is read and written by one statement but not reported as both source and target"
    return None


def build_holder(op):
    from sqllineage.core.holders import StatementLineageHolder
    from sqllineage.core.models import Table

    h = StatementLineageHolder()
    if op[0] == "rw":
        for r in op[1]:
            h.add_read(Table(r))
        if op[2] is not None:
            h.add_write(Table(op[2]))
    elif op[0] == "drop":
        for t in op[1]:
            h.add_drop(Table(t))
    elif op[0] == "rename":
        for x, y in op[1]:
            h.add_rename(Table(x), Table(y))
    return h


def qualify(op):
    if op[0] == "rw":
        return ("rw", [q(t) for t in op[1]], q(op[2]) if op[2] is not None else None)
    if op[0] == "drop":
        return ("drop", [q(t) for t in op[1]])
    return ("rename", [[q(x), q(y)] for x, y in op[1]])


def check_history_holder(spec) -> dict:
    from sqllineage.core.holders import SQLLineageHolder
    from sqllineage.core.metadata.dummy import DummyMetaDataProvider

    ops = spec["ops"]
    universe = {q(t) for t in spec["universe"]}
    model = Model()
    holders = []
    prov = DummyMetaDataProvider()
    viol = None
    states = set()
    shared = {}
    for i, op in enumerate(ops):
        if spec.get("share_holders"):
            # SQLLineageHolder.of(h, rename, h): passing the same statement holder object twice is legal API use
            k = json.dumps(op)
            if k not in shared:
                shared[k] = build_holder(op)
            else:
                model.probe("same_holder_object_twice")
            holders.append(shared[k])
        else:
            holders.append(build_holder(op))
        qop = qualify(op)
        was_loose = model.loose
        prev_TO = set().union(*[st.TO for st in model.states])
        model.apply(qop)
        gone = []
        # a name renamed away may legitimately be re-created by a later pair of the same statement
        if qop[0] == "rename":
            gone = [x for k, (x, _y) in enumerate(qop[1]) if all(y2 != x for _x2, y2 in qop[1][k + 1:])]
        try:
            obs = observe_holder(SQLLineageHolder.of(prov, *holders))
        except Exception as e:
            if model.loose:
                return _result(spec, model, None, states, note="exception in loose zone: " + type(e).__name__)
            viol = {"class": "exception_in_determined_zone", "message": f"after op {i} {op}: {type(e).__name__}: {e}; history {ops[:i + 1]}", "at": i}
            break
        if model.loose:
            msg = weak_invariants(obs, universe, gone if not was_loose or qop[0] == "rename" else ())
            if msg:
                viol = {"class": "weak_invariant", "message": f"after op {i} {op} (loose zone): {msg}; observed {obs}; history {ops[:i + 1]}", "at": i}
                break
            continue
        match = [s for s in model.states if s.roles() == obs]
        if not match:
            allowed = [s.roles() for s in model.states][:3]
            viol = {"class": "model_mismatch", "message": f"after op {i} {op}: observed (sources, targets, intermediates, edges) = {obs}; allowed: {allowed}; history {ops[:i + 1]}", "at": i}
            break
        if qop[0] == "drop" and any(t in prev_TO and t not in obs[1] for t in qop[1]):
            model.probe("drop_removed")
        model.states = match
        for s in match:
            states.add(short(s.roles(), 12))
    # order / duplication clause
    if viol is None and not model.loose and all(op[0] == "rw" for op in ops) and len(ops) >= 2:
        base = observe_holder(SQLLineageHolder.of(prov, *[build_holder(op) for op in ops]))
        g = stream(spec["seed"], "perm")
        perm = list(ops)
        g.shuffle(perm)
        if perm != ops:
            model.probe("reorder_checked")
        o2 = observe_holder(SQLLineageHolder.of(prov, *[build_holder(op) for op in perm]))
        if o2 != base:
            viol = {"class": "order_dependent", "message": f"history {ops} gives {base} but its permutation {perm} gives {o2}", "at": len(ops)}
        dup = list(ops)
        for _ in range(g.choice([1, 2])):
            dup.insert(g.randrange(len(dup) + 1), g.choice(ops))
        model.probe("duplicate_checked")
        o3 = observe_holder(SQLLineageHolder.of(prov, *[build_holder(op) for op in dup]))
        if o3 != base and viol is None:
            viol = {"class": "repetition_dependent", "message": f"history {ops} gives {base} but with repeated statements {dup} gives {o3}", "at": len(ops)}
    return _result(spec, model, viol, states)


def _result(spec, model, viol, states, note=None, extra=None):
    ops = spec["ops"]
    # history-level probes
    dropped = set()
    for op in ops:
        if op[0] == "drop":
            dropped |= set(op[1])
        elif op[0] == "rw" and (set(op[1]) | ({op[2]} if op[2] else set())) & dropped:
            model.probe("recreate_after_drop")
    if spec.get("path") == "sql":
        model.probe("sql_path")
    nontrivial = any(k in model.probes for k in ("drop_after_wiring", "rename_determined", "rename_loose", "selfloop", "recreate_after_drop",
                                                 "reorder_checked", "duplicate_checked", "multi_pair_rename", "drop_removed"))
    rr = {
        "verdict": "violation" if viol else "ok",
        "digest": short([spec.get("path"), ops], 24),
        "steps": len(ops),
        "faults": {k: v for k, v in model.probes.items() if k in ("reorder_checked", "duplicate_checked")},
        "probes": dict(model.probes),
        "states": sorted(states),
        "nontrivial": nontrivial,
        "log_digest": digest([ops, viol["class"] if viol else None, sorted(states)]),
        "extra": extra or {},
    }
    if viol:
        rr["violation"] = viol
        rr["spec"] = {k: v for k, v in spec.items()}
    return rr


# ---------------------------------------------------------------------------
# SQL path


def render(op, g, dialect_multi="mysql", columns=False, universe=(), path_member=None):
    if op[0] == "rw" and path_member is not None and (path_member in op[1] or op[2] == path_member):
        # one member of the universe is a DIRECTORY dataset (sparksql): read as parquet.`/data/x`, written by INSERT
        # OVERWRITE DIRECTORY - the summary reports it through the same roles as a table
        R, w = op[1], op[2]
        P = path_member
        item = lambda r, i: (f"parquet.`/data/{P}` p{i}" if r == P else f"{r} p{i}")
        frm = ""
        if R:
            frm = " FROM " + item(R[0], 0) + "".join(f" JOIN {item(r, i + 1)} ON p0.k = p{i + 1}.k" for i, r in enumerate(R[1:]))
        sel = "SELECT " + ("*" if R else "1") + frm
        if w is None:
            return sel
        if w == P:
            return f"INSERT OVERWRITE DIRECTORY '/data/{P}' {sel}"
        return g.choice([f"INSERT INTO {w} {sel}", f"CREATE TABLE {w} AS {sel}"])
    if op[0] == "rw":
        R, w = op[1], op[2]
        stray = [u for u in universe if u not in R and u != w]
        if R and columns and stray and g.random() < 0.12:
            # a column qualifier that names no dataset of this statement (a STRUCT field access such as address.city,
            # an outer alias) but is spelled like another table of the script: it is neither read nor written here
            frm = R[0] + "".join(f" JOIN {r} ON {R[0]}.k = {r}.k" for r in R[1:])
            x = g.choice(stray)
            return (f"INSERT INTO {w} " if w is not None else "") + f"SELECT {x}.k, {R[0]}.v_{R[0]} FROM {frm}"
        if R and w is not None and columns and g.random() < 0.75:
            # column-bearing renderings (histories without DROP/RENAME only): every table t has columns k and v_t.
            # An unqualified v_r read from a join has several candidate owners; another statement that declares v_r
            # on r (or a metadata provider that knows r) lets the script-level pass resolve it.  None of this may
            # touch the table-level summary, which is a function of the per-statement reads and writes alone.
            frm = R[0] + "".join(f" JOIN {r} ON {R[0]}.k = {r}.k" for r in R[1:])
            r = g.choice(R)
            kind = g.choice(["INSERT INTO {w} SELECT v_{r} FROM {f}", "INSERT INTO {w} SELECT v_{r} FROM {f}", "INSERT INTO {w} SELECT k, v_{r} FROM {f}",
                             "INSERT INTO {w} (k, v_{w}) SELECT {r0}.k, {r0}.v_{r0} FROM {f}", "CREATE TABLE {w} AS SELECT {r0}.k AS k, {r0}.v_{r0} AS v_{w} FROM {f}",
                             "INSERT INTO {w} (v_{w}) SELECT v_{r} FROM {f}"])
            return kind.format(w=w, f=frm, r0=R[0], r=r)
        if R and w is not None:
            frm = R[0] + "".join(f" JOIN {r} ON {R[0]}.k = {r}.k" for r in R[1:])
            kind = g.choice(["INSERT INTO {w} SELECT * FROM {f}", "CREATE TABLE {w} AS SELECT * FROM {f}", "INSERT INTO {w} SELECT {r0}.k FROM {f}"])
            return kind.format(w=w, f=frm, r0=R[0])
        if R:
            frm = R[0] + "".join(f" JOIN {r} ON {R[0]}.k = {r}.k" for r in R[1:])
            return f"SELECT * FROM {frm}"
        if w is not None:
            return g.choice([f"INSERT INTO {w} VALUES (1, 2)", f"CREATE TABLE {w} AS SELECT 1"])
        return "SELECT 1"
    if op[0] == "drop":
        return "DROP TABLE " + ", ".join(op[1]) if len(op[1]) == 1 else "DROP TABLE " + op[1][0]
    if len(op[1]) == 1:
        x, y = op[1][0]
        return f"ALTER TABLE {x} RENAME TO {y}"
    return "RENAME TABLE " + ", ".join(f"{x} TO {y}" for x, y in op[1])


def check_history_sql(spec) -> dict:
    """The history rendered to SQL; the model is fed what the analyzer reported per statement."""
    from sqllineage.runner import LineageRunner
    from sqllineage.utils import verif as tapmod

    ops = spec["ops"]
    g = stream(spec["seed"], "render")
    multi = any(op[0] == "rename" and len(op[1]) > 1 for op in ops)
    dialect = "mysql" if multi else spec.get("dialect", "ansi")
    # identical operations render to byte-identical statements (a script that repeats a statement verbatim)
    rendered = {}
    stmts = []
    for op in ops:
        k = json.dumps(op)
        if k not in rendered:
            rendered[k] = render(op, g, columns=bool(spec.get("columns")) and all(o[0] == "rw" for o in ops), universe=[u for u in spec["universe"] if u not in ("e", "f")],
                                 path_member=spec.get("path_member") if all(o[0] == "rw" for o in ops) else None)
        stmts.append(rendered[k])
    universe = {q(t) for t in spec["universe"]}
    facts = []

    def tap(event, payload):
        if event == "stmt.analyzed":
            h = payload["holder"]
            ren = sorted(((str(a), str(b), d.get("index", 0)) for a, b, d in h.graph.edges(data=True) if d.get("type") == "rename"), key=lambda x: x[2])
            facts.append({
                "read": sorted(str(t) for t in h.read), "write": sorted(str(t) for t in h.write),
                "drop": sorted(str(t) for t in h.drop), "rename": [[a, b] for a, b, _ in ren],
            })

    model = Model()
    states = set()
    viol = None
    for i in range(1, len(stmts) + 1):
        # prefix by prefix: a fresh runner per prefix (operation-by-operation check of the accumulator)
        facts.clear()
        tapmod.set_tap(tap)
        try:
            kw = {}
            if spec.get("provider_meta"):
                from sqllineage.core.metadata.dummy import DummyMetaDataProvider

                kw["metadata_provider"] = DummyMetaDataProvider({q(t): list(c) for t, c in spec["provider_meta"].items()})
                model.probe("sql_with_metadata_provider")
            runner = LineageRunner(";\n".join(stmts[:i]), dialect=dialect, **kw)
            obs = observe_runner(runner)
            if spec.get("path_member") and i == len(stmts) and any("/data/" in s_ for s_ in stmts):
                model.probe("directory_dataset_in_history")
                if any(f"DIRECTORY '/data/{spec['path_member']}'" in s_ and f"parquet.`/data/{spec['path_member']}`" in s_ for s_ in stmts):
                    model.probe("directory_read_and_overwritten_by_one_statement")
            if spec.get("columns") and i == len(stmts):
                model.probe("sql_column_bearing_history")
                if any("VALUES" in s_ for s_ in stmts) and any(" JOIN " in s_ and " SELECT v_" in s_ for s_ in stmts):
                    model.probe("constant_write_beside_ambiguous_column")
                touched = {t for f_ in all_facts for t in f_["read"] + f_["write"]}
                if any(q(u) in touched and f"SELECT {u}.k, " in s_ and f" {u} " not in s_.replace(f"SELECT {u}.k, ", "") + " " for u in spec["universe"] for s_ in stmts):
                    model.probe("stray_qualifier_names_a_table_of_the_script")
            err = None
        except Exception as e:
            obs, err = None, e
        finally:
            tapmod.set_tap(None)
        all_facts = list(facts)
        if err is None and len(facts) != i:
            return _result(spec, model, {"class": "harness_tap_count", "message": f"expected {i} statement taps, saw {len(facts)} for {stmts[:i]}", "at": i}, states)
        # feed the model with the facts of the newest statement
        if err is None:
            f = facts[-1]
            if f["drop"]:
                qop = ("drop", f["drop"])
            elif f["rename"]:
                qop = ("rename", f["rename"])
            else:
                if len(f["write"]) > 1:
                    return _result(spec, model, None, states, note="multi-write statement: outside the model")
                qop = ("rw", f["read"], f["write"][0] if f["write"] else None)
        else:
            qop = qualify(ops[i - 1])
        prev_TO = set().union(*[st.TO for st in model.states])
        model.apply(qop)
        gone = []
        if qop[0] == "rename":
            gone = [x for k, (x, _y) in enumerate(qop[1]) if all(y2 != x for _x2, y2 in qop[1][k + 1:])]
        if err is not None:
            if model.loose:
                return _result(spec, model, None, states, note="exception in loose zone")
            viol = {"class": "exception_in_determined_zone", "message": f"script {stmts[:i]} ({dialect}): {type(err).__name__}: {err}", "at": i}
            break
        if model.loose:
            msg = weak_invariants(obs, universe | {t for e in obs[3] for t in e}, gone)
            if msg:
                viol = {"class": "weak_invariant", "message": f"script {stmts[:i]} ({dialect}) (loose zone): {msg}; observed {obs}", "at": i}
                break
            continue
        match = [s for s in model.states if s.roles() == obs]
        if not match:
            viol = {"class": "model_mismatch", "message": f"script {stmts[:i]} ({dialect}): observed (sources, targets, intermediates, edges) = {obs}; "
                    f"the per-statement facts {facts} allow {[s.roles() for s in model.states][:3]}", "at": i}
            break
        if qop[0] == "drop" and any(t in prev_TO and t not in obs[1] for t in qop[1]):
            model.probe("drop_removed")
        model.states = match
        for s in match:
            states.add(short(s.roles(), 12))
    # one runner object shared by two caller threads whose first accesses race (schedules!): every answer either
    # thread gets must still be the one the statement determines
    if viol is None and not model.loose and spec.get("shared_runner") and len(model.states) == 1 and len(stmts) >= 2:
        sv = shared_runner_world(spec, stmts, dialect, model.states[0].roles())
        model.probe("shared_runner_threads")
        if sv:
            viol = sv
    # the first evaluation of a runner is cut short by an exception at a statement boundary (the analogue of a
    # collaborator failing once, or of an interrupt); the caller catches it and asks the same runner again: the answer
    # must be the one the statements determine - nothing of the aborted pass may be left in it (round 11)
    if viol is None and not model.loose and len(model.states) == 1 and len(stmts) >= 2 and stream(spec["seed"], "retry").random() < 0.5:
        rv = retry_world(spec, stmts, dialect, model.states[0].roles())
        model.probe("first_evaluation_interrupted_then_retried")
        if rv:
            viol = rv
    return _result(spec, model, viol, states, extra={"sql_statements": len(stmts)})


class InterruptedEvaluation(Exception):
    pass


def retry_world(spec, stmts, dialect, want):
    from sqllineage.runner import LineageRunner
    from sqllineage.utils import verif as tapmod

    g = stream(spec["seed"], "retry-point")
    k = g.randrange(len(stmts))
    ev = g.choice(["stmt.begin", "stmt.analyzed", "stmt.end", "stmt.end", "run.assembled"])
    times = g.choice([1, 1, 2])
    runner = LineageRunner(";\n".join(stmts), dialect=dialect)
    fired = {"n": 0}

    def tap(event, payload):
        if payload.get("runner") is runner and event == ev and (event == "run.assembled" or payload.get("index") == k) and fired["n"] < times:
            fired["n"] += 1
            raise InterruptedEvaluation(f"{ev} {k}")

    tapmod.set_tap(tap)
    try:
        for _ in range(times):
            try:
                observe_runner(runner)
                break  # (the point was never reached: nothing was interrupted)
            except InterruptedEvaluation:
                pass
        try:
            got = observe_runner(runner)
        except Exception as e:
            return {"class": "retry_mismatch", "message": f"script {stmts} ({dialect}): the first evaluation was interrupted at {ev} of statement {k} (x{fired['n']}); asking the same runner again raised {type(e).__name__}: {e}", "at": len(stmts)}
    finally:
        tapmod.set_tap(None)
    if fired["n"] and got != want:
        return {"class": "retry_mismatch", "message": f"script {stmts} ({dialect}): the first evaluation was interrupted at {ev} of statement {k} (x{fired['n']}); asking the same runner again gives {got}; "
                f"an uninterrupted evaluation gives {want}", "at": len(stmts)}
    return None


def shared_runner_world(spec, stmts, dialect, want):
    import hashlib

    import sqllineage.runner as runner_mod
    from sqllineage.runner import LineageRunner

    from ..sched import LineTracer, Scheduler, current, make_chooser

    g = stream(spec["seed"], "shared")
    runner = LineageRunner(";\n".join(stmts), dialect=dialect)
    if g.random() < 0.5:
        # already evaluated by the time the two callers meet: their accesses then race only inside the result views
        runner.statements()
    sched = Scheduler(make_chooser(g.choice(["retbias", "retbias", "retbias", "random", "pct2", "sticky50"]), stream(spec["seed"], "shared-sched"), horizon=400), max_steps=3_000_000, hang_s=150.0)
    got = {}
    progs = [[g.choice(["statements", "roles", "roles", "roles"]) for _ in range(g.choice([1, 2, 3, 5]))] for _ in range(2)]

    def mk(i):
        def body():
            outs = []
            for a in progs[i]:
                sched.yield_point("op", a)
                try:
                    if a == "statements":
                        outs.append(("statements", len(runner.statements())))
                    else:
                        outs.append(("roles", observe_runner(runner)))
                except Exception as e:
                    outs.append(("exception", type(e).__name__))
            got[i] = outs
        return body

    for i in range(2):
        sched.spawn(f"caller{i}", mk(i))
    import sqllineage.core.holders as holders_mod

    # pre-emption inside runner.py and (60%) also inside core/holders.py, where the summary views live
    # (only the SQLLineageHolder class - the accumulated result and its views - not the per-statement machinery)
    mods = [runner_mod] + ([holders_mod.SQLLineageHolder] if g.random() < 0.6 else [])
    tracer = LineTracer(sched, mods, granularity=g.choice(["line", "line", "instr"]))
    tracer.install()
    try:
        sched.run()
    finally:
        tracer.uninstall()
    bad = _judge_shared(got, stmts, dialect, want)
    if bad:
        return bad
    if spec.get("insertion_sweep"):
        return insertion_sweep(spec, stmts, dialect, want)
    return None


def _judge_shared(got, stmts, dialect, want):
    for i in range(2):
        for kind, val in got.get(i, []):
            if kind == "exception":
                return {"class": "shared_runner_mismatch", "message": f"script {stmts} ({dialect}) on one runner shared by two threads: an accessor raised {val}", "at": len(stmts)}
            if kind == "statements" and val != len(stmts):
                return {"class": "shared_runner_mismatch", "message": f"script {stmts} ({dialect}) on one runner shared by two threads: statements() returned {val} statements, the script has {len(stmts)}", "at": len(stmts)}
            if kind == "roles" and val != want:
                return {"class": "shared_runner_mismatch", "message": f"script {stmts} ({dialect}) on one runner shared by two threads whose first accesses overlapped: observed {val}; a single caller gets {want}", "at": len(stmts)}
    return None


def insertion_sweep(spec, stmts, dialect, want):
    """Systematic single insertion (sched.InsertAtChooser): an evaluated runner, two callers asking for the summary;
    for EVERY yield point k of the first caller's request the second caller's whole request is inserted there.
    Each k starts from a deep copy of the freshly evaluated runner (views not yet computed)."""
    import copy

    import sqllineage.core.holders as holders_mod
    import sqllineage.runner as runner_mod
    from sqllineage.runner import LineageRunner

    from ..sched import InsertAtChooser, LineTracer, Scheduler

    base = LineageRunner(";\n".join(stmts), dialect=dialect)
    base.statements()
    gran = "instr" if stream(spec["seed"], "sweep").random() < 0.15 else "line"
    k = -1  # first a dry run without insertion, to count the yield points of the victim's request
    total = None
    tracer = None
    try:
        while total is None or k < total:
            runner = copy.deepcopy(base)
            sched = Scheduler(InsertAtChooser(0, k if k >= 0 else 10 ** 9, 1), max_steps=2_000_000, hang_s=100.0)
            got = {}

            def mk(i, runner=runner, sched=sched, got=got):
                def body():
                    sched.yield_point("op", "roles")
                    try:
                        got[i] = [("roles", observe_runner(runner))]
                    except Exception as e:
                        got[i] = [("exception", type(e).__name__)]
                return body

            sched.spawn("victim", mk(0))
            sched.spawn("intruder", mk(1))
            if tracer is None:
                tracer = LineTracer(sched, [runner_mod, holders_mod.SQLLineageHolder], granularity=gran)
                tracer.install()
            tracer.sched = sched
            sched.run()
            if total is None:
                total = min(sched.chooser.count, 4000)  # yield points of the victim's request
            bad = _judge_shared(got, stmts, dialect, want)
            if bad:
                bad["message"] += f" [systematic insertion: the second caller's request inserted at yield point {k} of {total} ({gran} granularity) of the first caller's]"
                return bad
            k += 1
    finally:
        if tracer is not None:
            tracer.uninstall()
    return None


def run_one(spec):
    if spec.get("path") == "sql":
        return check_history_sql(spec)
    rr = check_history_holder(spec)
    # drop_removed probe: the implementation removed a never-read, never-wired table
    return rr


def execute(arg):
    runs = []
    for i, spec in enumerate(arg["specs"]):
        r = run_one(spec)
        if i == 0 and r["verdict"] == "ok":
            r["sample"] = {"path": spec.get("path", "holder"), "ops": spec["ops"], "universe": spec["universe"]}
        runs.append(r)
    return {"runs": runs}


# ---------------------------------------------------------------------------
# generator


def gen(seed, path="holder") -> dict:
    g = stream(seed, "gen")
    universe = ["a", "b", "c"] + (["d"] if g.random() < 0.4 else [])
    n = g.choice([1, 2, 3, 3, 4, 4, 5, 6])
    allow_rename = g.random() < 0.55
    allow_drop = g.random() < 0.7
    ops = []
    touched = []
    for i in range(n):
        r = g.random()
        if ops and allow_drop and r < 0.2:
            t = g.choice(touched) if touched and g.random() < 0.8 else g.choice(universe)
            ops.append(["drop", [t]])
        elif ops and allow_rename and r < 0.38:
            npairs = 1 if g.random() < 0.7 else g.choice([2, 3, 3, 4])
            pairs = []
            for _ in range(npairs):
                x = g.choice(touched) if touched and g.random() < 0.8 else g.choice(universe)
                fresh = [u for u in universe + ["e", "f"] if u != x]
                y = g.choice(fresh)
                if any(px == x for px, _py in pairs):
                    continue  # one statement cannot rename the same table twice (the second pair would be invalid SQL)
                pairs.append([x, y])
            ops.append(["rename", pairs])
            for x, y in pairs:
                if y not in universe:
                    universe.append(y)
                touched.append(y)
        elif ops and r < 0.5 and any(o[0] == "rw" for o in ops):
            # the same statement again (verbatim): re-creates what a DROP / RENAME in between took away
            ops.append(json.loads(json.dumps(g.choice([o for o in ops if o[0] == "rw"]))))
        else:
            k = g.choice([0, 1, 1, 1, 2, 2, 3])
            R = g.sample(universe, min(k, len(universe)))
            w = g.choice(universe) if g.random() < 0.8 else None
            if not R and w is None:
                w = g.choice(universe)
            ops.append(["rw", R, w])
            touched.extend(R)
            if w:
                touched.append(w)
    return {"seed": seed, "path": path, "ops": ops, "universe": sorted(set(universe) | {"e", "f"}), "share_holders": g.random() < 0.4,
            "shared_runner": g.random() < 0.7, "insertion_sweep": g.random() < 0.12}


def gen_columns(seed) -> dict:
    """SQL path, no DROP/RENAME, column-bearing renderings over 4-5 tables, sometimes with a metadata provider."""
    g = stream(seed, "gen-columns")
    universe = ["a", "b", "c", "d"] + (["e"] if g.random() < 0.4 else [])
    ops = []
    for _ in range(g.choice([2, 3, 3, 4, 4, 5])):
        if ops and g.random() < 0.12:
            ops.append(json.loads(json.dumps(g.choice(ops))))
            continue
        k = g.choice([0, 0, 1, 2, 2, 2, 3])
        R = g.sample(universe, k)
        w = g.choice(universe) if (g.random() < 0.85 or not R) else None
        ops.append(["rw", R, w])
    meta = {t: ["k", f"v_{t}"] for t in universe if g.random() < 0.5} if g.random() < 0.5 else None
    gp = stream(seed, "gen-columns-path")
    if gp.random() < 0.3:
        # a directory dataset among the members (sparksql); self-loops on it are wanted
        P = gp.choice(universe)
        for o in ops:
            if o[2] == P and gp.random() < 0.5 and P not in o[1]:
                o[1].append(P)
        return {"seed": seed, "path": "sql", "ops": ops, "universe": sorted(set(universe) | {"e", "f"}), "share_holders": False, "columns": True, "dialect": "sparksql",
                "path_member": P, "provider_meta": None, "shared_runner": False, "insertion_sweep": False}
    return {"seed": seed, "path": "sql", "ops": ops, "universe": sorted(set(universe) | {"e", "f"}), "share_holders": False, "columns": True,
            "provider_meta": meta or None, "shared_runner": g.random() < 0.2, "insertion_sweep": False}


def plan(seed: int, tier: str) -> list[dict]:
    master = stream(seed, "c03-plan")
    units = []
    n_holder = {"quick": 60_000, "thorough": 1_500_000}[tier]
    n_sql = {"quick": 2_000, "thorough": 40_000}[tier]
    block = 1000
    for b in range(n_holder // block):
        hs = [0, 1, 2, 3, 5, 7, 11, 13][b % 8]
        units.append({"key": {"hash_seed": hs}, "specs": [gen(master.randrange(2 ** 48)) for _ in range(block)], "wall_s": 200.0})
    sb = 20
    for b in range(n_sql // sb):
        hs = [0, 1, 2, 3][b % 4]
        units.append({"key": {"hash_seed": hs}, "specs": [gen(master.randrange(2 ** 48), "sql") for _ in range(sb)], "wall_s": 300.0})
    n_col = {"quick": 800, "thorough": 16_000}[tier]
    for b in range(n_col // sb):
        hs = [0, 1, 2, 3][b % 4]
        units.append({"key": {"hash_seed": hs}, "specs": [gen_columns(master.randrange(2 ** 48)) for _ in range(sb)], "wall_s": 300.0})
    # interleave the two paths so that a budget cut starves neither
    sql_u = [u for u in units if u["specs"][0]["path"] == "sql"]
    hol_u = [u for u in units if u["specs"][0]["path"] != "sql"]
    out = []
    ratio = max(1, len(sql_u) // max(1, len(hol_u)))
    while sql_u or hol_u:
        for _ in range(ratio):
            if sql_u:
                out.append(sql_u.pop(0))
        if hol_u:
            out.append(hol_u.pop(0))
    return out


def shrink_candidates(spec):
    out = []
    ops = spec["ops"]
    for i in range(len(ops)):
        s = dict(spec)
        s["ops"] = ops[:i] + ops[i + 1:]
        if s["ops"]:
            out.append(s)
    for i, op in enumerate(ops):
        if op[0] == "rw" and len(op[1]) > 1:
            for k in range(len(op[1])):
                s = dict(spec)
                s["ops"] = ops[:i] + [["rw", op[1][:k] + op[1][k + 1:], op[2]]] + ops[i + 1:]
                out.append(s)
        if op[0] == "rename" and len(op[1]) > 1:
            for k in range(len(op[1])):
                s = dict(spec)
                s["ops"] = ops[:i] + [["rename", op[1][:k] + op[1][k + 1:]]] + ops[i + 1:]
                out.append(s)
    return out
