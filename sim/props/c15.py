"""C15 -- configuration overrides are scoped and thread-local.

System under simulation: the real ``SQLLineageConfig`` object of
sqllineage/config.py.  Seams: the ``threading`` module as seen by config.py
(simulated thread identifiers, incl. reuse of a dead thread's identifier), the
baton scheduler with LINE-level pre-emption inside config.py, the process
environment (``SQLLINEAGE_*`` flips by an operator actor).

Oracle: a reference model (per-thread scope, global environment) checked at
every read and after every operation, see DESIGN.md section 4.1.
"""
from __future__ import annotations

import faulthandler
import hashlib
import json
import select
import signal
import os
import threading as _real_threading

from ..sched import HarnessError, LineTracer, ReplayChooser, Scheduler, current, make_chooser, no_preempt
from ..util import digest, short, stream

ID = "C15"
PRELOAD = ["sqllineage.config", "sqllineage.runner", "sim.props.c15"]
BUDGET_S = {"quick": 240.0, "thorough": 1500.0}

KEYS = ["DEFAULT_SCHEMA", "DIRECTORY", "TSQL_NO_SEMICOLON", "LATERAL_COLUMN_ALIAS_REFERENCE"]
BOOL_KEYS = {"TSQL_NO_SEMICOLON", "LATERAL_COLUMN_ALIAS_REFERENCE"}
STR_VALUES = ["", "s1", "s2", "Ods", 5]
BOOL_VALUES = [True, False, "true", "0", "1", "off", "YES", " y ", 0, 1, 2, -1, "-3", "ok", "no"]
ENV_STR = ["envs", "", "e2"]
ENV_BOOL = ["true", "false", "1", "0", "yes", "abc", "ON", ""]
AFFIRM = ("true", "on", "ok", "y", "yes", "1")

DESCRIPTION = {
    "rule": (
        "each simulated run = 2-4 real threads under the baton scheduler, each a seeded program of <=6 operations "
        "(open scope with typed/string/falsy values, open with an unknown key in every key order, nested open caught inside "
        "the outer scope, read, direct assignment, raise inside the body, close, thread exit followed by a new thread that "
        "may reuse the identifier) plus an operator thread flipping SQLLINEAGE_* environment variables; schedule from a "
        "seeded strategy (uniform / sticky / PCT d=1..3) with pre-emption at every source line of sqllineage/config.py; "
        "every read is compared with the reference model. A run is identified by the sha256 of its operation-level event "
        "sequence (thread, op, args, outcome); it is non-trivial iff it hit >=1 probe (rejected open followed by a read, "
        "rejected nested open followed by an outer read, context switch inside __call__/__enter__/__exit__/__getattr__, "
        "scope exit while another thread is in scope, identifier reuse, falsy override masking a truthy environment value, "
        "read straddling an environment flip). Worlds varied per run (swarm): warnings escalated to errors for the run (20%); "
        "library operations between the configuration operations - LineageRunner objects constructed inside / outside scopes and "
        "evaluated, successfully or not, by any thread later (12%); threads the threading module does not list (raw _thread / "
        "C-created: 10% of the threads); stale Thread handles released late; a crowd of 64-100 threads parked inside scopes."
    ),
    "real_code": ["sqllineage/config.py (_SQLLineageConfigLoader, the module-level SQLLineageConfig object)", "os.environ"],
    "stubs": ["threading as seen by sqllineage.config: get_ident / enumerate / current_thread / active_count answer with simulated identities (sim/sched.py ThreadingShim); Lock/RLock created by sqllineage code are SimLock scheduling points", "thread scheduling (baton)"],
    "assumptions": [
        "shared-handle worlds: what a thread reads between its call / enter on a handle that other threads also enter and its own exit is judged loosely (the override may be taken to belong to the caller or to whoever enters); everything after its scope has ended is judged strictly",
        "fork worlds: the forked child is the forking thread alone; 'a new thread of the child that was given the identifier of parent thread X' is simulated by that thread taking X's identifier through the get_ident seam; fork probes are generated only in worlds without library operations (import locks held by parked threads would be inherited)",
        "accepted override values stay in the documented domain (strings, ints, bools); values a boolean key cannot coerce (None, list, dict) are generated only as attempts that must be rejected without a trace - or, on a tree that coerces them, as a scope opened and closed at once",
        "a bare SQLLineageConfig(**valid) call that is never entered is not generated (the statement does not describe it)",
        "pre-emption at every source line and function return of config.py in 2/3 of the runs and at every bytecode instruction of config.py in 1/3 (the granularity at which the GIL switches); dict/set operations implemented in C are atomic, as under the GIL",
        "environment flips happen between operations of the operator actor, i.e. between lines of config.py, never inside os.environ.get",
    ],
    "required_probes": {
        "quick": ["rejected_open_then_read", "nested_rejected_then_outer_read", "exit_while_other_in_scope", "ident_reused",
                  "falsy_override_masks_env", "switch_in___call__", "switch_in___enter__", "switch_in___exit__", "switch_in___getattr__", "insertion_sweep", "crowd",
                  "strict_warnings_world", "runner_constructed_in_scope", "runner_evaluation_failed", "foreign_thread", "open_rejected_because_of_a_value", "shared_handle_scopes_overlap", "fork_while_other_thread_in_scope"],
        "thorough": ["rejected_open_then_read", "nested_rejected_then_outer_read", "exit_while_other_in_scope", "ident_reused",
                     "ident_reused_after_rejected_open", "falsy_override_masks_env", "read_straddles_env_flip"],
    },
}


# ---------------------------------------------------------------------------
# reference model (written from the documented intent, not from the code)


def coerce(key: str, v):
    if key in BOOL_KEYS:
        try:
            return int(v) != 0
        except ValueError:
            return str(v).lower().strip() in AFFIRM
    return str(v)


def defaults() -> dict:
    import sqllineage

    return {
        "DIRECTORY": os.path.join(os.path.dirname(sqllineage.__file__), "data"),
        "DEFAULT_SCHEMA": "",
        "TSQL_NO_SEMICOLON": False,
        "LATERAL_COLUMN_ALIAS_REFERENCE": False,
    }


def model_read(scope, key, env, dflt):
    if scope is not None and key in scope:
        return scope[key]
    raw = env.get(key)
    if raw is None:
        return dflt[key]
    return coerce(key, raw)


def same(a, b) -> bool:
    return type(a) is type(b) and a == b


# ---------------------------------------------------------------------------
# generator (simulator side; pure function of the seed)


def _kw(g, n=None, keys=None):
    keys = keys or KEYS
    n = n or g.choice([1, 1, 2, 2, 3])
    ks = g.sample(keys, min(n, len(keys)))
    return [[k, g.choice(BOOL_VALUES if k in BOOL_KEYS else STR_VALUES)] for k in ks]


def _reads(g, n):
    return [["read", g.choice(KEYS)] for _ in range(n)]


def _body(g, swarm, n):
    ops = []
    for _ in range(n):
        r = g.random()
        if r < 0.45:
            ops.append(["read", g.choice(KEYS)])
        elif r < 0.65 and swarm["nested"]:
            ops.append(["nested", _kw(g), _reads(g, g.choice([0, 1]))])
            ops.append(["read", g.choice(KEYS)])
        elif r < 0.8 and swarm["bad"]:
            ops.append(_bad(g))
            ops.append(["read", g.choice(KEYS)])
        elif r < 0.9 and swarm["assign"]:
            k = g.choice(KEYS)
            ops.append(["assign", k, g.choice(BOOL_VALUES if k in BOOL_KEYS else STR_VALUES)])
        else:
            ops.append(["read", g.choice(KEYS)])
    return ops


BAD_VALUES = [None, [1], {"a": 1}]  # what int() refuses with something other than ValueError (boolean keys only)


def _badvalue(g):
    """A call that is rejected because of a VALUE: valid keys, one boolean key carrying something that cannot be coerced."""
    kw = _kw(g, g.choice([1, 1, 2]), keys=[k for k in KEYS if k not in BOOL_KEYS] + ["LATERAL_COLUMN_ALIAS_REFERENCE"])
    bk = g.choice([k for k in sorted(BOOL_KEYS) if k not in [x[0] for x in kw]])
    kw.insert(g.choice([len(kw), len(kw), g.randrange(len(kw) + 1)]), [bk, g.choice(BAD_VALUES)])
    return ["badvalue", kw]


def _bad(g):
    if g.random() < 0.25:
        return _badvalue(g)
    kw = _kw(g, g.choice([0, 1, 1, 2]))
    pos = g.randrange(len(kw) + 1)
    kw.insert(pos, [g.choice(["UNKNOWN", "default_schema", "DEFAULT_SCHEMAS"]), g.choice(["x", 1, True])])
    return ["bad", kw]


RUNNER_INPUTS = [
    # (sql, dialect): library operations that consult the configuration while scopes are open elsewhere. Evaluating
    # (or failing to evaluate) a runner - wherever and whenever it was constructed - changes nothing a read can observe.
    ["SELECT * FROM t", "ansi"],
    ["INSERT INTO a SELECT * FROM b", "tsql"],
    ["SELECT FROM WHERE )))", "tsql"],
    ["SELECT 1", "nosuchdialect"],
    ["SELECT FROM WHERE", "ansi"],
    ["insert into a select * from b\ninsert into c select * from d", "tsql"],
]


def _runner_ops(g):
    slot = g.randrange(3)
    return g.choice([[["mkrunner", slot, g.randrange(len(RUNNER_INPUTS))]], [["evalrunner", slot]], [["evalrunner", slot], ["read", g.choice(KEYS)]],
                     [["mkrunner", slot, g.randrange(len(RUNNER_INPUTS))], ["evalrunner", slot]]])


def _prog(g, swarm, nops):
    ops = []
    while len(ops) < nops:
        r = g.random()
        if swarm.get("runner") and g.random() < 0.3:
            ops.extend(_runner_ops(g))
        if r < 0.4:
            body = _body(g, swarm, g.choice([1, 2, 3]))
            if swarm.get("runner") and g.random() < 0.6:
                body.insert(g.randrange(len(body) + 1), ["mkrunner", g.randrange(3), g.randrange(len(RUNNER_INPUTS))])
                if g.random() < 0.3:
                    body.append(["evalrunner", g.randrange(3)])
            ops.append(["scope", _kw(g), body, swarm["raise"] and g.random() < 0.3])
        elif r < 0.6 and swarm["bad"]:
            ops.append(_bad(g))
            ops.append(["read", g.choice(KEYS)])
        elif r < 0.7 and swarm["assign"]:
            k = g.choice(KEYS)
            ops.append(["assign", k, g.choice(BOOL_VALUES if k in BOOL_KEYS else STR_VALUES)])
        else:
            ops.append(["read", g.choice(KEYS)])
    return ops[:nops + 1]


def gen_shared(g, seed, ident_base) -> dict:
    """Shared-handle world (round 11): one thread keeps the object returned by `SQLLineageConfig(...)`, and it is entered -
    possibly at overlapping times - by that thread and by others. What is read *inside* such scopes is judged loosely
    (the override may be taken to belong to the caller or to whoever enters); what every thread reads after the scope
    it entered has ended, and whether it can open scopes of its own afterwards, is judged strictly."""
    kw = _kw(g)
    keys = [k for k, _ in kw]

    def tail():
        ops = [["read", g.choice(keys)] for _ in range(g.choice([1, 2]))]
        if g.random() < 0.5:
            ops.append(["scope", _kw(g), _reads(g, g.choice([1, 2])), g.random() < 0.3])
            ops.append(["read", g.choice(keys)])
        return ops

    nthreads = g.choice([2, 2, 3])
    threads = []
    for i in range(nthreads):
        prog = []
        if i == 0:
            prog.append(["hcall", kw])
        prog.append(["henter", [["read", g.choice(keys)] for _ in range(g.choice([0, 1, 2]))], g.random() < 0.25])
        prog += tail()
        if i > 0 and g.random() < 0.3:
            prog.append(["henter", [["read", g.choice(keys)]], False])
            prog += tail()
        threads.append({"prog": prog, "after": None, "reuse": False})
    env0 = {}
    if g.random() < 0.4:
        k = g.choice([k for k in keys if k != "DIRECTORY"] or ["DEFAULT_SCHEMA"])
        env0[k] = g.choice(ENV_BOOL if k in BOOL_KEYS else ENV_STR)
    return {"seed": seed, "ident_base": ident_base, "threads": threads, "env0": env0, "operator": [],
            "sched": g.choice(["random", "sticky", "sticky50", "pct1", "pct2", "pct3", "retbias"]), "line": g.random() < 0.7,
            "gran": g.choice(["line", "line", "instr"]), "final_probe": True, "crowd": 0, "werror": False, "shared_handle": True}


def gen(seed, ident_base=1000) -> dict:
    gs = stream(seed, "gen-shared")
    if gs.random() < 0.06:
        return gen_shared(gs, seed, ident_base)
    g = stream(seed, "gen")
    swarm = {
        "bad": g.random() < 0.7,
        "nested": g.random() < 0.7,
        "assign": g.random() < 0.4,
        "raise": g.random() < 0.6,
        "env": g.random() < 0.6,
        "reuse": g.random() < 0.6,
    }
    swarm["runner"] = stream(seed, "gen-runner").random() < 0.12
    fg = stream(seed, "gen-foreign")
    nthreads = g.choice([2, 2, 3, 3, 4])
    threads = []
    for i in range(nthreads):
        threads.append({"prog": _prog(g, swarm, g.choice([1, 2, 3, 4, 5, 6])), "after": None, "reuse": False})
    if swarm["reuse"]:
        for _ in range(g.choice([1, 1, 2])):
            pred = g.randrange(len(threads))
            threads.append({"prog": _prog(g, swarm, g.choice([1, 2, 3])), "after": pred, "reuse": g.random() < 0.75})
    for th in threads:
        if fg.random() < 0.1:
            th["foreign"] = True
    gf = stream(seed, "gen-fork")
    if gf.random() < 0.05 and not swarm["runner"]:
        # (not in worlds with library operations: a thread parked inside a lazy import holds import locks the child
        # would inherit - a property of fork in any threaded Python program, not of the configuration)
        th = gf.choice(threads[:nthreads])
        th["prog"].insert(gf.randrange(len(th["prog"]) + 1), ["fork_probe"])
    env0 = {}
    operator = []
    for i, th in enumerate(threads):
        if th.get("after") is not None and th.get("reuse") and g.random() < 0.5:
            threads[th["after"]]["hold_handle"] = True
            operator.extend([["release", th["after"]]] * g.choice([1, 2, 3]))
    if swarm["env"]:
        for k in KEYS:
            if k != "DIRECTORY" and g.random() < 0.4:
                env0[k] = g.choice(ENV_BOOL if k in BOOL_KEYS else ENV_STR)
        for _ in range(g.choice([0, 1, 2, 3])):
            k = g.choice([k for k in KEYS if k != "DIRECTORY"])
            operator.append(["env", k, g.choice((ENV_BOOL if k in BOOL_KEYS else ENV_STR) + [None])])
    return {
        "seed": seed,
        "ident_base": ident_base,
        "threads": threads,
        "env0": env0,
        "operator": operator,
        "sched": g.choice(["random", "random", "sticky", "sticky50", "pct1", "pct2", "pct3", "retbias", "retbias"]),
        "line": g.random() < 0.85,
        "gran": g.choice(["line", "line", "instr"]),
        "final_probe": True,
        "crowd": (g.choice([64, 70, 100]) if g.random() < 0.008 else 0),
        "werror": g.random() < 0.2,
    }


SAT_PROGRAMS = [
    # two threads x three operations: operation-level interleavings sampled to saturation (measured, reported)
    ([["scope", [["DEFAULT_SCHEMA", "s1"]], [["read", "DEFAULT_SCHEMA"]], False], ["read", "DEFAULT_SCHEMA"]],
     [["scope", [["DEFAULT_SCHEMA", "s2"]], [["read", "DEFAULT_SCHEMA"]], True], ["read", "DEFAULT_SCHEMA"]]),
    ([["bad", [["DEFAULT_SCHEMA", "x"], ["UNKNOWN", 1]]], ["read", "DEFAULT_SCHEMA"], ["read", "TSQL_NO_SEMICOLON"]],
     [["scope", [["TSQL_NO_SEMICOLON", "yes"]], [["read", "TSQL_NO_SEMICOLON"], ["read", "DEFAULT_SCHEMA"]], False]]),
    ([["scope", [["DEFAULT_SCHEMA", "a"]], [["nested", [["DEFAULT_SCHEMA", "b"]], []], ["read", "DEFAULT_SCHEMA"]], False]],
     [["read", "DEFAULT_SCHEMA"], ["scope", [["DEFAULT_SCHEMA", ""]], [["read", "DEFAULT_SCHEMA"]], False]]),
    ([["assign", "DEFAULT_SCHEMA", "z"], ["read", "DEFAULT_SCHEMA"], ["scope", [["DIRECTORY", "d"]], [], False]],
     [["scope", [["DIRECTORY", "e"]], [["read", "DIRECTORY"]], True], ["read", "DIRECTORY"], ["read", "DEFAULT_SCHEMA"]]),
]


def saturation_specs(seed: int, per_program: int) -> list[dict]:
    out = []
    for pi, (a, b) in enumerate(SAT_PROGRAMS):
        for k in range(per_program):
            out.append({"seed": f"{seed}:sat:{pi}:{k}", "ident_base": 1000 * (len(out) + 1), "env0": {"DEFAULT_SCHEMA": "envs"}, "operator": [],
                        "threads": [{"prog": a, "after": None, "reuse": False}, {"prog": b, "after": None, "reuse": False}],
                        "sched": "random", "line": False, "final_probe": False, "sat": pi})
    return out


def gen_sweep(seed, ident_base=1000) -> dict:
    g = stream(seed, "gen-sweep")
    swarm = {"bad": True, "nested": True, "assign": False, "raise": True, "env": False, "reuse": False}
    victim = _prog(g, swarm, g.choice([1, 1, 2]))
    intruder = _prog(g, swarm, g.choice([1, 2, 3]))
    if g.random() < 0.6:  # both sides mostly talk about the same key: that is where they can collide
        key = g.choice(KEYS)
        val = lambda: g.choice(BOOL_VALUES if key in BOOL_KEYS else STR_VALUES)
        victim = [["scope", [[key, val()]], [["read", key]], g.random() < 0.3], ["read", key]][: g.choice([1, 2])]
        intruder = [["scope", [[key, val()]], [["read", key]], g.random() < 0.3], ["read", key]]
        if g.random() < 0.5:
            intruder.reverse()
    nops = sum(1 for _ in intruder)
    spec = {"seed": seed, "ident_base": ident_base, "env0": ({"DEFAULT_SCHEMA": "envs"} if g.random() < 0.5 else {}), "operator": [],
            "threads": [{"prog": victim, "after": None, "reuse": False}, {"prog": intruder, "after": None, "reuse": False}],
            "sched": "sticky", "line": True, "gran": g.choice(["instr", "instr", "line"]), "final_probe": True,
            "sweep": {"victim": 0, "intruder": 1, "prefix": g.randrange(0, max(1, nops))}}
    if g.random() < 0.15:
        spec["crowd"] = g.choice([40, 64, 70, 100])
        spec["gran"] = "line"
    return spec


def plan(seed: int, tier: str) -> list[dict]:
    master = stream(seed, "c15-plan")
    nruns = {"quick": 14_000, "thorough": 400_000}[tier]
    block = 250
    units = []
    nblocks = nruns // block
    for b in range(nblocks):
        hs = master.randrange(1, 2**31)
        specs = []
        for k in range(block):
            rs = master.randrange(2**48)
            specs.append(gen(rs, ident_base=1000 * (k + 1)))
        # a handful of hash seeds: zygote start is 1-3 s, so bucket them
        units.append({"key": {"hash_seed": hs % 8}, "specs": specs, "wall_s": 120.0})
    nsw = {"quick": 60, "thorough": 3000}[tier]
    for b in range(nsw // 6):
        units.insert(b * 2, {"key": {"hash_seed": 0}, "specs": [gen_sweep(master.randrange(2 ** 48), ident_base=1000 * (k + 1)) for k in range(6)], "wall_s": 300.0})
    sat = saturation_specs(seed, {"quick": 400, "thorough": 2000}[tier])
    for i in range(0, len(sat), 400):
        units.append({"key": {"hash_seed": 0}, "specs": sat[i:i + 400], "wall_s": 120.0})
    return units


# ---------------------------------------------------------------------------
# execution (inside a forked child)


class Boom(Exception):
    pass


from ..sched import ThreadingShim as _ThreadingShim  # noqa: E402  (simulated identity: get_ident, enumerate, current_thread)


class World:
    def __init__(self, spec, cfg, dflt):
        self.spec = spec
        self.cfg = cfg
        self.dflt = dflt
        self.env_hist = [dict(spec["env0"])]
        self.events = []
        self.violation = None
        self.probes = {}
        self.states = set()
        self.scopes = {}  # thread idx -> scope dict or None
        self.seq = 0

    def probe(self, name):
        self.probes[name] = self.probes.get(name, 0) + 1

    def log(self, tidx, kind, args, outcome):
        self.events.append([self.seq, tidx, kind, args, outcome])
        self.seq += 1
        if len(self.states) < 64:
            self.states.add(short([sorted((k, sorted(v.items()) if v is not None else None) for k, v in self.scopes.items()), sorted(self.env_hist[-1].items())]))

    def violate(self, vclass, msg, tidx):
        if self.violation is None:
            self.violation = {"class": vclass, "message": msg, "at_seq": self.seq, "thread": tidx}


_tracer = None


def _setup():
    global _tracer
    import sqllineage.config as cfgmod

    if not isinstance(cfgmod.threading, _ThreadingShim):
        cfgmod.threading = _ThreadingShim()
    return cfgmod


def _apply_env(env):
    for k in KEYS:
        name = "SQLLINEAGE_" + k
        if k in env:
            os.environ[name] = env[k]
        else:
            os.environ.pop(name, None)


def run_one(spec: dict) -> dict:
    cfgmod = _setup()
    from sqllineage.exceptions import ConfigException

    cfg = cfgmod.SQLLineageConfig
    dflt = defaults()
    w = World(spec, cfg, dflt)
    _apply_env(spec["env0"])
    if spec.get("schedule") is not None:
        chooser = ReplayChooser(spec["schedule"])
    elif spec.get("insert_at") is not None:
        from ..sched import InsertAtChooser

        ia = spec["insert_at"]
        chooser = InsertAtChooser(ia["victim"], ia["k"] if ia["k"] >= 0 else 10 ** 9, ia["intruder"], ia.get("prefix", 0))
    else:
        chooser = make_chooser(spec["sched"], stream(spec["seed"], "sched"), horizon=300)
    sched = Scheduler(chooser, max_steps=100_000, hang_s=60.0)
    sched.trace_digest = hashlib.sha256()
    switch_sites = {}

    last = {"detail": None}

    def on_yield(t, kind, detail):
        last["detail"] = detail if kind == "line" else None

    sched.on_yield = on_yield

    def read(t, key, tag="read"):
        v0 = len(w.env_hist) - 1
        sw0 = sched.switches
        try:
            val = getattr(cfg, key)
        except Boom:
            raise
        except HarnessError:
            raise
        except BaseException as e:
            w.log(t.idx, tag, [key], "raised:" + type(e).__name__)
            w.violate("read_raised", f"thread {t.idx} read {key}: raised {type(e).__name__}: {e}", t.idx)
            return
        v1 = len(w.env_hist) - 1
        scope = w.scopes.get(t.idx)
        adm = [model_read(scope, key, w.env_hist[v], dflt) for v in range(v0, v1 + 1)]
        if t.ctx.get("loose"):
            # shared-handle world, between this thread's call / enter and its exit: whether the override kept in the
            # handle belongs to the caller or to whoever enters it is not stated - either reading is admitted here
            adm += [model_read(shared["kw"], key, w.env_hist[v], dflt) for v in range(v0, v1 + 1)]
            w.probe("loose_read_on_shared_handle")
        ok = any(same(val, a) for a in adm)
        w.log(t.idx, tag, [key], repr(val))
        if v1 > v0:
            w.probe("read_straddles_env_flip")
        if scope is not None and key in scope and not scope[key] and w.env_hist[v1].get(key) and coerce(key, w.env_hist[v1][key]):
            w.probe("falsy_override_masks_env")
        if t.ctx.get("after_bad"):
            w.probe("rejected_open_then_read")
        if t.ctx.get("after_nested") and scope is not None:
            w.probe("nested_rejected_then_outer_read")
        if not ok:
            w.violate(
                "wrong_read",
                f"thread {t.idx} (ident {t.ident}) read {key} = {val!r}; the model allows {adm!r} "
                f"(own scope {scope!r}, environment {w.env_hist[v1]!r})",
                t.idx,
            )

    opseq = []  # thread index at every operation-level yield point, in global order

    def do_ops(t, ops, in_scope):
        for op in ops:
            t.ctx["nops"] = t.ctx.get("nops", 0) + 1
            opseq.append(t.idx)
            sched.yield_point("op", op[0])
            kind = op[0]
            if kind == "read":
                read(t, op[1])
            elif kind == "assign":
                try:
                    setattr(cfg, op[1], op[2])
                except ConfigException:
                    w.log(t.idx, "assign", op[1:], "refused")
                except BaseException as e:
                    if isinstance(e, (Boom, HarnessError)):
                        raise
                    w.log(t.idx, "assign", op[1:], "raised:" + type(e).__name__)
                    w.violate("assign_wrong_exception", f"direct assignment raised {type(e).__name__}", t.idx)
                else:
                    w.log(t.idx, "assign", op[1:], "accepted")
                    w.violate("assign_accepted", f"thread {t.idx}: SQLLineageConfig.{op[1]} = {op[2]!r} was not refused", t.idx)
            elif kind == "bad":
                kw = {k: v for k, v in op[1]}
                try:
                    cfg(**kw)
                except ConfigException:
                    w.log(t.idx, "bad", op[1], "refused")
                    t.ctx["after_bad"] = True
                    t.ctx["ever_bad"] = True
                except BaseException as e:
                    if isinstance(e, (Boom, HarnessError)):
                        raise
                    w.log(t.idx, "bad", op[1], "raised:" + type(e).__name__)
                    w.violate("bad_wrong_exception", f"override with unknown key raised {type(e).__name__}: {e}", t.idx)
                else:
                    w.log(t.idx, "bad", op[1], "accepted")
                    w.violate("bad_accepted", f"thread {t.idx}: override with unknown key accepted: {op[1]!r}", t.idx)
            elif kind == "badvalue":
                kw = {k: v for k, v in op[1]}
                outer = w.scopes.get(t.idx)
                try:
                    with cfg(**kw):
                        # (a tree that coerces the value instead of refusing it: the scope is simply opened and closed)
                        w.log(t.idx, "badvalue", op[1], "accepted")
                        if in_scope:
                            w.violate("nested_accepted", f"thread {t.idx}: nested override was not refused: {op[1]!r}", t.idx)
                except (Boom, HarnessError):
                    raise
                except Exception as e:
                    w.log(t.idx, "badvalue", op[1], "rejected:" + type(e).__name__)
                    w.probe("open_rejected_because_of_a_value")
                    t.ctx["after_bad"] = True
                    t.ctx["ever_bad"] = True
                w.scopes[t.idx] = outer
            elif kind == "scope":
                if in_scope:
                    raise HarnessError("generator produced a scope inside a scope; use 'nested'")
                kw = {k: v for k, v in op[1]}
                entered = False
                try:
                    with cfg(**kw):
                        entered = True
                        w.scopes[t.idx] = {k: coerce(k, v) for k, v in kw.items()}
                        w.log(t.idx, "enter", op[1], "ok")
                        t.ctx["after_bad"] = False
                        t.ctx["after_nested"] = False
                        do_ops(t, op[2], True)
                        if op[3]:
                            w.log(t.idx, "raise", [], "boom")
                            raise Boom()
                        # leaving the scope normally
                        if any(s is not None for i, s in w.scopes.items() if i != t.idx):
                            w.probe("exit_while_other_in_scope")
                        w.scopes[t.idx] = None
                except Boom:
                    if any(s is not None for i, s in w.scopes.items() if i != t.idx):
                        w.probe("exit_while_other_in_scope")
                    w.scopes[t.idx] = None
                except Warning as e:
                    # strict-warnings world: a warning escalated to an error out of the open attempt makes it a
                    # rejected attempt like any other - nothing a later read can observe may have changed
                    if entered:
                        raise
                    w.scopes[t.idx] = None
                    w.log(t.idx, "enter", op[1], "rejected:" + type(e).__name__)
                    w.probe("open_rejected_by_escalated_warning")
                    t.ctx["after_bad"] = True
                    t.ctx["ever_bad"] = True
                    continue
                except ConfigException as e:
                    if entered:
                        w.scopes[t.idx] = None
                        w.violate("scope_body_config_exception", f"ConfigException inside an entered scope: {e}", t.idx)
                    else:
                        w.log(t.idx, "enter", op[1], "refused")
                        w.violate("open_refused", f"thread {t.idx} (ident {t.ident}): a valid, non-nested override was refused: {e}", t.idx)
                w.log(t.idx, "exit", [], "ok")
            elif kind == "fork_probe":
                # the process forks here (a worker pool, a daemonising server): only this thread exists in the child. A
                # brand-new thread of the child may be given the identifier of ANY thread the parent had - also of one that
                # was inside a scope at the fork. Such a thread set nothing: it must read the environment / default value and
                # be able to open a scope of its own. The child is this very thread taking, in turn, the identifier of every
                # other simulated thread; it reports through a pipe and exits.
                import warnings as _w

                me = t
                others = [o for o in sched.threads if o is not me and o.ident != me.ident]
                rfd, wfd = os.pipe()
                with no_preempt():
                    with _w.catch_warnings():
                        _w.simplefilter("ignore", DeprecationWarning)
                        pid = os.fork()
                    if pid == 0:
                        out = []
                        try:
                            if os.environ.get("VERIF_DEBUG_FORK"):
                                faulthandler.register(signal.SIGALRM, all_threads=True)
                                signal.alarm(5)
                            os.close(rfd)
                            own = me.ident
                            for o in others:
                                me.ident = o.ident
                                vals = {}
                                for k in KEYS:
                                    try:
                                        vals[k] = getattr(cfg, k)
                                    except BaseException as e:
                                        vals[k] = "raised:" + type(e).__name__
                                opened, inside_v = True, None
                                try:
                                    with cfg(DEFAULT_SCHEMA="childprobe"):
                                        inside_v = cfg.DEFAULT_SCHEMA
                                except ConfigException as e:
                                    opened = False
                                out.append([o.idx, o.ident, vals, opened, inside_v])
                            me.ident = own
                            os.write(wfd, json.dumps(out).encode())
                        finally:
                            os._exit(0)
                    os.close(wfd)
                    data = b""
                    while True:
                        if not select.select([rfd], [], [], 45.0)[0]:
                            os.kill(pid, signal.SIGKILL)
                            os.waitpid(pid, 0)
                            raise HarnessError("forked probe child did not answer within 45 s")
                        b = os.read(rfd, 65536)
                        if not b:
                            break
                        data += b
                    os.close(rfd)
                    os.waitpid(pid, 0)
                    if not data:
                        raise HarnessError("forked probe child died without an answer")
                w.probe("fork_probe")
                w.log(t.idx, "fork_probe", [], short(data.decode(), 12))
                env = w.env_hist[-1]
                for oidx, oident, vals, opened, inside_v in json.loads(data or b"[]"):
                    if w.scopes.get(oidx) is not None:
                        w.probe("fork_while_other_thread_in_scope")
                    for k in KEYS:
                        want = model_read(None, k, env, dflt)
                        if not same(vals[k], want):
                            w.violate("wrong_read_in_forked_child", f"after a fork by thread {t.idx}, a new thread of the child that is given identifier {oident} "
                                      f"(thread {oidx} of the parent, own scope there {w.scopes.get(oidx)!r}) read {k} = {vals[k]!r}; it set nothing: expected {want!r}", t.idx)
                    if not opened or inside_v != "childprobe":
                        w.violate("open_refused_in_forked_child", f"after a fork by thread {t.idx}, a new thread of the child given identifier {oident} could not open a scope of its own "
                                  f"(opened={opened}, read inside {inside_v!r})", t.idx)
            elif kind == "hcall":
                # shared-handle world: the object returned by the call is kept and entered later - by the caller and by
                # other threads. Between its call and its own enter the caller is not judged ("pending").
                kw = {k: v for k, v in op[1]}
                t.ctx["loose"] = True
                shared["kw"] = {k: coerce(k, v) for k, v in kw.items()}
                try:
                    shared["h"] = cfg(**kw)
                    w.log(t.idx, "hcall", op[1], "ok")
                except ConfigException as e:
                    shared["h"] = False
                    w.violate("open_refused", f"thread {t.idx} (ident {t.ident}): a valid, non-nested override call was refused: {e}", t.idx)
            elif kind == "henter":
                if in_scope:
                    raise HarnessError("henter inside a scope")
                sched.block_until(lambda: shared["h"] is not None or shared["owner_done"])
                h = shared["h"]
                if not h:
                    w.log(t.idx, "henter", [], "skipped")
                    continue
                w.probe("shared_handle_entered")
                if shared["inside"]:
                    w.probe("shared_handle_scopes_overlap")
                t.ctx["loose"] = True
                shared["inside"] += 1
                try:
                    with h:
                        w.log(t.idx, "henter", [], "ok")
                        do_ops(t, op[1], True)
                        if op[2]:
                            w.log(t.idx, "raise", [], "boom")
                            raise Boom()
                except Boom:
                    pass
                except ConfigException as e:
                    w.violate("open_refused", f"thread {t.idx} (ident {t.ident}) was refused a scope on the shared handle although it is in no scope: {e}", t.idx)
                finally:
                    shared["inside"] -= 1
                # the scope this thread entered has ended: from here on it sees the environment / default again
                t.ctx["loose"] = False
                w.log(t.idx, "hexit", [], "ok")
            elif kind == "nested":
                if not in_scope:
                    raise HarnessError("nested outside scope")
                kw = {k: v for k, v in op[1]}
                accepted = False
                outer = w.scopes.get(t.idx)
                try:
                    with cfg(**kw):
                        accepted = True
                        w.log(t.idx, "nested", op[1], "accepted")
                except ConfigException:
                    w.log(t.idx, "nested", op[1], "refused")
                    t.ctx["after_nested"] = True
                w.scopes[t.idx] = outer
                if accepted:
                    w.violate("nested_accepted", f"thread {t.idx}: nested override was not refused: {op[1]!r}", t.idx)
            elif kind == "mkrunner":
                from sqllineage.runner import LineageRunner

                sql, dialect = RUNNER_INPUTS[op[2]]
                try:
                    runners[op[1]] = LineageRunner(sql, dialect=dialect)
                    w.log(t.idx, "mkrunner", op[1:], "ok")
                except Exception as e:
                    w.log(t.idx, "mkrunner", op[1:], "raised:" + type(e).__name__)
                w.probe("runner_constructed_in_scope" if in_scope else "runner_constructed_outside_scope")
            elif kind == "evalrunner":
                r_ = runners.get(op[1])
                if r_ is None:
                    w.log(t.idx, "evalrunner", op[1:], "no such runner yet")
                else:
                    try:
                        r_.source_tables
                        w.log(t.idx, "evalrunner", op[1:], "ok")
                        w.probe("runner_evaluated")
                    except (Boom, HarnessError):
                        raise
                    except Exception as e:
                        w.log(t.idx, "evalrunner", op[1:], "raised:" + type(e).__name__)
                        w.probe("runner_evaluation_failed")
            elif kind == "release":
                import gc

                h = handles.pop(op[1], None)
                if h is not None and h.done:
                    h.real = None
                    h.shim = None
                    del h
                    with no_preempt():
                        gc.collect()
                    w.probe("stale_thread_handle_released")
                    w.log(t.idx, "release", [op[1]], "released")
                elif h is not None:
                    handles[op[1]] = h
            elif kind == "env":
                env = dict(w.env_hist[-1])
                if op[2] is None:
                    env.pop(op[1], None)
                else:
                    env[op[1]] = op[2]
                _apply_env(env)
                w.env_hist.append(env)
                w.log(t.idx, "env", op[1:], "set")
            else:
                raise HarnessError(f"unknown op {op}")

    def final_probe(t):
        # end-of-run invariant, from a fresh thread on a used identifier: env/default is read for
        # every key, a new scope can be opened, is visible inside and gone afterwards
        for k in KEYS:
            read(t, k, "final_read")
        try:
            with cfg(DEFAULT_SCHEMA="probe", TSQL_NO_SEMICOLON="yes"):
                w.scopes[t.idx] = {"DEFAULT_SCHEMA": "probe", "TSQL_NO_SEMICOLON": True}
                read(t, "DEFAULT_SCHEMA", "final_read")
                read(t, "TSQL_NO_SEMICOLON", "final_read")
                w.scopes[t.idx] = None
        except ConfigException as e:
            w.scopes[t.idx] = None
            w.violate("open_refused", f"final probe thread (ident {t.ident}) could not open a scope after everything was closed: {e}", t.idx)
        read(t, "DEFAULT_SCHEMA", "final_read")

    handles = {}
    runners = {}
    shared = {"h": None, "kw": None, "inside": 0, "owner_done": not any(op[0] == "hcall" for th in spec["threads"] for op in th["prog"])}
    crowd_n = int(spec.get("crowd") or 0)
    crowd_state = {"inside": 0, "actives_done": 0}
    base = spec.get("ident_base", 1000)
    sim_threads = []
    idents = []
    nxt = 0
    for i, th in enumerate(spec["threads"]):
        after = th.get("after")
        if after is not None and after < i and th.get("reuse"):
            ident = idents[after]
        else:
            ident = base + nxt
            nxt += 1
        idents.append(ident)

        def mk(i=i, th=th):
            def body():
                t = current()
                w.scopes[t.idx] = None
                if crowd_n:
                    sched.block_until(lambda: crowd_state["inside"] >= crowd_n)
                if th.get("after") is not None and th.get("reuse"):
                    w.probe("ident_reused")
                    if sim_threads[th["after"]].ctx.get("ever_bad"):
                        w.probe("ident_reused_after_rejected_open")
                try:
                    do_ops(t, th["prog"], False)
                except Boom:
                    pass
                if any(op[0] == "hcall" for op in th["prog"]):
                    shared["owner_done"] = True
                t.ctx["after_bad"] = False
                for k in (KEYS if spec.get("final_probe") else []):
                    read(t, k, "end_read")
                crowd_state["actives_done"] += 1
            return body

        wait = [sim_threads[after]] if after is not None and after < i else []
        # two live threads never share an identifier: a reuser waits for every earlier user
        wait += [sim_threads[j] for j in range(i) if idents[j] == ident and sim_threads[j] not in wait]
        st_ = sched.spawn(f"t{i}", mk(), ident=ident, wait_for=wait)
        if th.get("foreign"):
            # a thread the threading module does not list (raw _thread / C-created request thread)
            st_.ctx["foreign"] = True
            w.probe("foreign_thread")
        if th.get("hold_handle"):
            # somebody (a list of workers, a future) keeps this thread's Thread object after it ended, and lets go
            # of it later: its identifier may have been handed to a new thread by then
            st_.keep_handle = True
            handles[i] = st_
        sim_threads.append(st_)
    nworkers = len(sim_threads)
    for ci in range(crowd_n):
        # a crowd of other callers that simply sit inside scopes of their own for the whole run
        def cbody(ci=ci):
            t = current()
            with no_preempt():
                pass
            with cfg(DEFAULT_SCHEMA=f"crowd{ci}"):
                w.scopes[t.idx] = {"DEFAULT_SCHEMA": f"crowd{ci}"}
                crowd_state["inside"] += 1
                sched.block_until(lambda: crowd_state["actives_done"] >= nworkers)
                if ci % 16 == 0:
                    read(t, "DEFAULT_SCHEMA", "crowd_read")
            w.scopes[t.idx] = None
        sched.spawn(f"crowd{ci}", cbody, ident=base + 600 + ci)
    if crowd_n:
        w.probe("crowd")
    if spec.get("operator"):
        def op_body():
            do_ops(current(), spec["operator"], False)
        sched.spawn("operator", op_body, ident=base + 500)
    if spec.get("final_probe"):
        for ident in sorted(set(idents)):
            users = [sim_threads[i] for i in range(nworkers) if idents[i] == ident]

            def mkp():
                def body():
                    t = current()
                    w.scopes[t.idx] = None
                    final_probe(t)
                return body

            sched.spawn(f"probe{ident}", mkp(), ident=ident, wait_for=users)

    global _tracer
    if spec.get("line"):
        gran = spec.get("gran", "line")
        if _tracer is not None and _tracer.granularity != gran:
            _tracer.uninstall()
            _tracer = None
        if _tracer is None:
            _tracer = LineTracer(sched, [cfgmod], granularity=gran)
            _tracer.install()
        _tracer.sched = sched
        _tracer.enabled = True
    elif _tracer is not None:
        _tracer.enabled = False

    prev_switch = {"n": 0}
    orig_yield = sched.yield_point

    def counting_yield(kind, detail=None):
        before = sched.switches
        orig_yield(kind, detail)
        if sched.switches != before and kind in ("line", "instr", "ret"):
            switch_sites[detail[0]] = switch_sites.get(detail[0], 0) + 1
            if kind != "line":
                w.probes["switch_at_" + kind] = w.probes.get("switch_at_" + kind, 0) + 1

    sched.yield_point = counting_yield  # type: ignore
    import warnings

    saved_filters = warnings.filters[:]
    if spec.get("werror"):
        # the process runs with warnings escalated to errors (-W error / PYTHONWARNINGS=error / pytest filterwarnings)
        warnings.simplefilter("error")
        w.probe("strict_warnings_world")
    try:
        sched.run()
    finally:
        if _tracer is not None:
            _tracer.enabled = False
        _apply_env({})
        if spec.get("werror"):
            warnings.filters[:] = saved_filters
            warnings._filters_mutated()
    for t in sched.threads:
        if t.exc is not None:
            if isinstance(t.exc, HarnessError):
                raise t.exc
            w.violate("thread_died", f"thread {t.name} died with {type(t.exc).__name__}: {t.exc}", t.idx)
    for name, n in switch_sites.items():
        if name in ("__call__", "__enter__", "__exit__", "__getattr__", "parse_value", "get_ident"):
            w.probes["switch_in_" + name] = w.probes.get("switch_in_" + name, 0) + n

    op_events = [[e[1], e[2], e[3], e[4]] for e in w.events]
    res = {
        "victim_yields": getattr(sched.chooser, "count", None),
        "verdict": "violation" if w.violation else "ok",
        "digest": short(op_events, 24),
        "line_digest": sched.trace_digest.hexdigest()[:24],
        "steps": sched.step,
        "faults": _fault_counts(w, spec),
        "probes": w.probes,
        "states": sorted(w.states),
        "nontrivial": bool(w.probes),
        "log_digest": digest([w.events, sched.schedule]),
    }
    if spec.get("sat") is not None:
        # operation-level interleaving = the order in which the threads' operations were logged
        # the interleaving = which thread's operation ran k-th (decided at the operation-level yield points)
        import math

        execd = [e[1] for e in w.events if e[2] in ("read", "assign", "bad", "enter", "nested", "raise")]
        order = "".join(str(x) for x in execd)
        na = sched.threads[0].ctx.get("nops", 0)
        nb = sched.threads[1].ctx.get("nops", 0)
        res["extra"] = {f"sat|{spec['sat']}|{math.comb(na + nb, na)}|{order}": 1}
    if w.violation:
        res["violation"] = w.violation
        sp = dict(spec)
        sp["schedule"] = list(sched.schedule)
        res["spec"] = sp
    return res


def _fault_counts(w, spec):
    c = {}
    for e in w.events:
        k = e[2]
        if k == "env":
            c["env_flip"] = c.get("env_flip", 0) + 1
        elif k == "raise":
            c["body_raise"] = c.get("body_raise", 0) + 1
        elif k in ("bad", "nested") and e[4] == "refused":
            c["reject"] = c.get("reject", 0) + 1
    n = sum(1 for t in spec["threads"] if t.get("after") is not None and t.get("reuse"))
    if n:
        c["ident_reuse"] = n
    return c


def run_sweep(spec: dict) -> dict:
    """Systematic single insertion (sched.InsertAtChooser): the intruder's next operation is inserted at EVERY yield
    point k of the victim thread's program; each k is a complete simulated run with fresh thread identifiers."""
    first = None
    k, total = -1, None
    steps = 0
    nsub = 0
    while total is None or k < total:
        sp = dict(spec)
        sp["insert_at"] = dict(spec["sweep"], k=k)
        sp["ident_base"] = spec.get("ident_base", 1000) + 1000 * (nsub % 50)
        sp.pop("sweep", None)
        r = run_one(sp)
        nsub += 1
        steps += r["steps"]
        if total is None:
            total = min(r.get("victim_yields") or 0, 2500)
            first = r
        if r["verdict"] == "violation":
            r["violation"]["message"] += f" [systematic insertion at yield point {k} of {total} of thread {spec['sweep']['victim']}]"
            r["steps"] = steps
            return r
        k += 1
    first["steps"] = steps
    first["probes"] = dict(first["probes"], insertion_sweep=1)
    first["extra"] = {"sweep_subruns": nsub}
    first["digest"] = short(["sweep", spec["threads"], spec["sweep"], spec.get("crowd")], 24)
    first["log_digest"] = digest(["sweep", first["log_digest"], total])
    return first


def execute(arg: dict) -> dict:
    runs = []
    specs = arg["specs"]
    for i, spec in enumerate(specs):
        r = run_sweep(spec) if spec.get("sweep") else run_one(spec)
        if i == 0 and r["verdict"] == "ok":
            r["sample"] = {"threads": spec["threads"], "operator": spec["operator"], "env0": spec["env0"], "sched": spec["sched"], "steps": r["steps"]}
        runs.append(r)
        if r["verdict"] == "violation" and len(specs) > 1:
            # later runs of the block start from an image this run may have polluted: stop here,
            # the driver re-runs the remaining specs is not needed (a violation ends the check anyway)
            break
    return {"runs": runs}


# ---------------------------------------------------------------------------
# shrinking


def _drop_thread(spec, i):
    s = dict(spec)
    ths = []
    for j, th in enumerate(spec["threads"]):
        if j == i:
            continue
        th = dict(th)
        a = th.get("after")
        if a is not None:
            if a == i:
                th["after"], th["reuse"] = None, False
            elif a > i:
                th["after"] = a - 1
        ths.append(th)
    s["threads"] = ths
    if s.get("schedule") is not None:
        s["schedule"] = [(-1 if c == i else (c - 1 if c > i else c)) for c in s["schedule"]]
    return s


def _op_variants(ops):
    """All one-step simplifications of an op list."""
    out = []
    for i, op in enumerate(ops):
        out.append(ops[:i] + ops[i + 1:])
    for i, op in enumerate(ops):
        if op[0] == "scope":
            for b in _op_variants(op[2]):
                out.append(ops[:i] + [[op[0], op[1], b, op[3]]] + ops[i + 1:])
            if op[3]:
                out.append(ops[:i] + [[op[0], op[1], op[2], False]] + ops[i + 1:])
            if len(op[1]) > 1:
                for k in range(len(op[1])):
                    out.append(ops[:i] + [[op[0], op[1][:k] + op[1][k + 1:], op[2], op[3]]] + ops[i + 1:])
        elif op[0] == "henter":
            for b in _op_variants(op[1]):
                out.append(ops[:i] + [[op[0], b, op[2]]] + ops[i + 1:])
            if op[2]:
                out.append(ops[:i] + [[op[0], op[1], False]] + ops[i + 1:])
        elif op[0] == "nested":
            if op[2]:
                out.append(ops[:i] + [[op[0], op[1], []]] + ops[i + 1:])
            if len(op[1]) > 1:
                for k in range(len(op[1])):
                    out.append(ops[:i] + [[op[0], op[1][:k] + op[1][k + 1:], op[2]]] + ops[i + 1:])
        elif op[0] in ("bad", "badvalue"):
            if len(op[1]) > 1:
                for k in range(len(op[1])):
                    if op[1][k][0] in KEYS and not (op[0] == "badvalue" and op[1][k][1] in BAD_VALUES):
                        out.append(ops[:i] + [[op[0], op[1][:k] + op[1][k + 1:]]] + ops[i + 1:])
    return out


def shrink_candidates(spec: dict) -> list[dict]:
    out = []
    n = len(spec["threads"])
    if n > 1:
        for i in range(n):
            out.append(_drop_thread(spec, i))
    if spec.get("operator"):
        s = dict(spec)
        s["operator"] = []
        out.append(s)
    if spec.get("final_probe"):
        s = dict(spec)
        s["final_probe"] = False
        out.append(s)
    sch = spec.get("schedule")
    if sch:
        if any(c != -1 for c in sch):
            s = dict(spec)
            s["schedule"] = []
            out.append(s)
        if spec.get("line"):
            s = dict(spec)
            s["line"] = False
            s["schedule"] = []
            out.append(s)
    for i, th in enumerate(spec["threads"]):
        for v in _op_variants(th["prog"]):
            s = dict(spec)
            s["threads"] = [dict(t) for t in spec["threads"]]
            s["threads"][i]["prog"] = v
            out.append(s)
        if th.get("reuse") is False and th.get("after") is not None:
            s = dict(spec)
            s["threads"] = [dict(t) for t in spec["threads"]]
            s["threads"][i]["after"] = None
            out.append(s)
    for i in range(len(spec.get("operator") or [])):
        s = dict(spec)
        s["operator"] = spec["operator"][:i] + spec["operator"][i + 1:]
        out.append(s)
    for k in list(spec.get("env0") or {}):
        s = dict(spec)
        s["env0"] = {a: b for a, b in spec["env0"].items() if a != k}
        out.append(s)
    if sch:
        # fewer context switches: keep a prefix of the schedule, then "stay"
        L = len(sch)
        for cut in (L // 2, (3 * L) // 4, L - max(1, L // 8)):
            if 0 < cut < L and any(c != -1 for c in sch[cut:]):
                s = dict(spec)
                s["schedule"] = sch[:cut]
                out.append(s)
    return out
