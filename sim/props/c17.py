"""C17 -- the visualisation server only discloses files under its roots.

System: sqllineage.drawing.app invoked in-process as a WSGI callable (real
code: routing, containment checks, helpers.extract_sql_from_args, /lineage ->
LineageRunner).  Stubbed: the socket/HTTP layer (requests are environ dicts).
Storage: a real scratch tree per run in which every file and every directory
entry carries a unique marker; request histories with administrative
operations between requests (root moves, chdir, tree mutations, DIRECTORY
flips) and OSError injection at the n-th open/exists/is_dir/iterdir.

Oracle (one-directional, DESIGN.md 4.7): no response body contains a marker
that lives outside the root in force; a lexically outside path never gets 200.
"""
from __future__ import annotations

import errno
import hashlib
import io
import json
import os
import shutil
import tempfile

from ..sched import HarnessError, LineTracer, ReplayChooser, Scheduler, current, make_chooser
from ..util import digest, short, stream

ID = "C17"
PRELOAD = ["sqllineage.runner", "sqllineage.drawing", "sim.props.c17"]
BUDGET_S = {"quick": 240.0, "thorough": 1500.0}

DESCRIPTION = {
    "rule": (
        "each simulated run = a fresh scratch tree (root/, root/sub/deep/, root_sibling/, root2/, outside/, static/, cwd/) in which every file "
        "content and every directory entry carries a unique marker, and a history of 4-30 operations: GET path, POST /script|/lineage {f}, POST "
        "/directory {f}|{d}|{}, OPTIONS, other methods, with paths built from <=5 segments of {.., ., child, nested child, sibling-with-common-"
        "prefix, outside dir, file-as-directory, empty} in absolute and relative spelling (half of them starting inside the root in force), plus detours "
        "(out of the root through a missing entry or a regular file and back in BY NAME) and literal spellings some layer might expand (~, ~user, $HOME, "
        "%-escapes, file://) with HOME pointing at a directory outside every root; between "
        "requests: root moves (absolute and relative spelling), chdir, file<->directory swaps / deletes / creations, SQLLINEAGE_DIRECTORY flips; "
        "OSError (ENOENT, EACCES, EISDIR, ENOTDIR, EIO, EMFILE) injected at the n-th open/exists/is_dir/iterdir; in the threaded class two client "
        "threads and a root-move actor are interleaved at every source line of drawing.py. Distinct = sha256 of the operation-level event sequence "
        "(route, method, path class, status); non-trivial iff >=1 request targeted a path outside the root in force or an I/O fault fired."
    ),
    "real_code": ["sqllineage/drawing.py (SQLLineageApp.__call__, route handlers)", "sqllineage/utils/helpers.py (extract_sql_from_args)",
                  "LineageRunner behind /lineage", "the real file system (scratch tree), os.chdir"],
    "stubs": ["HTTP/socket layer (wsgiref): requests are WSGI environ dicts", "open()/Path.exists/is_dir/iterdir wrappers that inject OSError",
              "thread scheduling (baton) in the threaded class"],
    "assumptions": [
        "lexical model as the statement prescribes ('once . and .. segments are resolved'): symbolic links are outside the property",
        "chdir and tree mutations happen only while no request is in flight (a change between the check and the read of one request is a process-wide TOCTOU window outside the property)",
        "while a root move is concurrent with a request either root is accepted for that request",
        "an exception escaping the WSGI callable counts as a refusal (it reveals nothing)",
        "the empty-payload /directory route is judged against the union of root_path and SQLLINEAGE_DIRECTORY",
    ],
    "required_probes": {
        "quick": ["insertion_sweep", "outside_dotdot", "outside_sibling_prefix", "outside_absolute", "outside_relative", "inside_served", "directory_of_root_file",
                  "directory_f_is_root", "get_static_served", "get_outside", "os_error_fired", "root_moved", "chdir", "fs_mutated", "lineage_by_file", "literal_expandable_spelling", "two_path_parameters", "payload_shape_variant"],
        "thorough": ["outside_dotdot", "outside_sibling_prefix", "inside_served", "os_error_fired", "root_moved", "threaded_root_move_concurrent"],
    },
}

ERRNOS = ["ENOENT", "EACCES", "EISDIR", "ENOTDIR", "EIO", "EMFILE"]


# ---------------------------------------------------------------------------
# scratch world


class FSWorld:
    def __init__(self, seed):
        base = os.environ.get("VERIF_WORK") or tempfile.gettempdir()
        self.W = tempfile.mkdtemp(prefix="c17-", dir=base)
        self.markers = {}  # marker -> absolute path of the file / dir entry that owns it
        self.n = 0
        self.seed = seed
        for d in ("root/sub/deep", "root_sibling", "root2/inner", "outside/more", "static/js", "cwd"):
            os.makedirs(os.path.join(self.W, d))
        for rel in ("root/a.sql", "root/sub/b.sql", "root/sub/deep/c.sql", "root_sibling/s.sql", "root2/r2.sql", "root2/inner/i.sql",
                    "outside/o.sql", "outside/more/m.sql", "cwd/rel.sql"):
            self.write_sql(rel)
        for rel in ("static/index.html", "static/js/app.js", "static/favicon.ico"):
            self.write_text(rel)
        for d in ("root", "root/sub", "root_sibling", "root2", "outside", "outside/more", "static", "cwd", ""):
            self.name_marker(d)

    def p(self, rel):
        return os.path.join(self.W, rel) if rel else self.W

    def _mk(self, kind):
        self.n += 1
        return f"mk{kind}{hashlib.sha256(f'{self.seed}:{self.n}'.encode()).hexdigest()[:10]}"

    def write_sql(self, rel):
        m = self._mk("c")
        with open(self.p(rel), "w") as f:
            f.write(f"INSERT INTO tgt_{m} SELECT * FROM {m}\n")
        self.markers[m] = self.p(rel)

    def write_text(self, rel):
        m = self._mk("c")
        with open(self.p(rel), "w") as f:
            f.write(f"<html>{m}</html>")
        self.markers[m] = self.p(rel)

    def name_marker(self, d):
        m = self._mk("n")
        path = os.path.join(self.p(d), m + ".sql")
        with open(path, "w") as f:
            f.write("SELECT 1\n")
        self.markers[m] = path

    def destroy(self):
        shutil.rmtree(self.W, ignore_errors=True)


def under(path, root):
    path = os.path.normpath(path)
    root = os.path.normpath(root)
    return path == root or path.startswith(root.rstrip("/") + "/")


# ---------------------------------------------------------------------------
# fault-injecting file access


class Faults:
    def __init__(self):
        self.plan = []  # [{"site": "open"|"exists"|"is_dir"|"iterdir", "n": int, "errno": str}]
        self.count = {}
        self.fired = {}
        self.active = False

    def hit(self, site):
        if not self.active:
            return
        t = current()
        if t is not None and t.no_preempt:
            return
        n = self.count.get(site, 0)
        self.count[site] = n + 1
        for f in self.plan:
            if f["site"] == site and f["n"] == n and not f.get("_fired"):
                f["_fired"] = True
                self.fired[f["errno"]] = self.fired.get(f["errno"], 0) + 1
                code = getattr(errno, f["errno"])
                raise OSError(code, os.strerror(code))


_faults = Faults()
_installed = False


def install_shims():
    global _installed
    if _installed:
        return
    import builtins
    import pathlib

    import sqllineage.drawing as drawing
    import sqllineage.utils.helpers as helpers

    real_open = builtins.open

    def open_shim(*a, **k):
        _faults.hit("open")
        return real_open(*a, **k)

    drawing.open = open_shim
    helpers.open = open_shim
    for name in ("exists", "is_dir", "iterdir"):
        real = getattr(pathlib.Path, name)

        def mk(real=real, name=name):
            def shim(self, *a, **k):
                _faults.hit(name)
                return real(self, *a, **k)
            return shim

        setattr(pathlib.Path, name, mk())
    _installed = True


# ---------------------------------------------------------------------------
# one run


def call_app(app, method, path, payload=None):
    status = {}

    def start_response(s, headers, exc_info=None):
        status["s"] = s

    env = {"REQUEST_METHOD": method, "PATH_INFO": path, "SERVER_NAME": "sim", "SERVER_PORT": "0", "wsgi.url_scheme": "http"}
    if payload is not None:
        body = json.dumps(payload).encode()
        env["CONTENT_LENGTH"] = str(len(body))
        env["wsgi.input"] = io.BytesIO(body)
    try:
        out = app(env, start_response)
        data = b"".join(out)
        return int(status.get("s", "0 ").split()[0]), data, None
    except BaseException as e:
        if isinstance(e, HarnessError):
            raise
        return 0, b"", type(e).__name__


def spell(world, op, cwd, root_abs):
    """Materialises a path spelling: op["path"] = {"start": anchor, "segs": [...], "abs": bool}."""
    p = op["path"]
    if p.get("literal") is not None:
        # sent exactly as written: spellings that some layer might expand (~, ~user, $HOME, %-escapes) - to the server
        # they are ordinary relative names under the cwd
        return p["literal"]
    anchors = {
        "root": root_abs, "W": world.W, "outside": world.p("outside"), "sibling": world.p("root_sibling"), "cwd": cwd,
        "static": world.p("static"), "root2": world.p("root2"), "fsroot": "/", "origroot": world.p("root"), "sub": world.p("root/sub"),
    }
    base = anchors[p["start"]]
    full = base
    segs = []
    for s in p["segs"]:
        if s == "@root":
            # "back into the root by name" from wherever the spelling has lexically got to (a detour through
            # directories that may not exist physically)
            s = os.path.relpath(root_abs, os.path.normpath(full))
        segs.append(s)
        if s == "":
            full = full + "/"
        else:
            full = full.rstrip("/") + "/" + s if full != "/" else "/" + s
    if p["abs"]:
        return full
    rel = os.path.relpath(os.path.normpath(base), cwd)
    tail = "/".join(segs)
    spelled = rel + ("/" + tail if tail else "")
    return spelled


def run_one(spec: dict) -> dict:
    import sqllineage.drawing as drawing
    from pathlib import Path

    install_shims()
    world = FSWorld(spec["seed"])
    app = drawing.app
    old_cwd = os.getcwd()
    old_static = drawing.STATIC_FOLDER
    events = []
    probes = {}
    viol = [None]
    state = {"inflight": 0}
    root_hist = [os.path.normpath(world.p("root"))]  # every root ever in force, in order

    def probe(n):
        probes[n] = probes.get(n, 0) + 1

    def violate(c, m):
        if viol[0] is None:
            viol[0] = {"class": c, "message": m, "at_seq": len(events)}

    drawing.STATIC_FOLDER = world.p("static")
    app.root_path = Path(world.p("root"))
    os.chdir(world.p("cwd"))
    os.environ.pop("SQLLINEAGE_DIRECTORY", None)
    old_home = os.environ.get("HOME")
    os.environ["HOME"] = world.p("outside")  # the operator's home directory: a place outside every root, with files in it
    _faults.plan = [dict(f) for f in spec.get("faults", [])]
    _faults.count = {}
    _faults.fired = {}

    def roots_in_force():
        r = [os.path.normpath(os.path.join(os.getcwd(), str(app.root_path)))]
        return r

    def do_request(op, tname=""):
        cwd = os.getcwd()
        roots_before = roots_in_force()
        method = op["method"]
        route = op.get("route")
        payload = None
        target_dirs = None
        allowed_roots = []
        lexical_target = None
        if method == "GET":
            if "path" in op:
                # a URL path that spells a file-system path: "/" + absolute path (i.e. a double slash), or relative
                path_info = op.get("get_prefix", "/") + spell(world, op, cwd, roots_before[0])
            else:
                path_info = op["path_info"]
            allowed_roots = [world.p("static")]
            if path_info != "/":
                lexical_target = os.path.normpath(os.path.join(world.p("static"), path_info.strip("/")))
            else:
                lexical_target = world.p("static/index.html")
            spelled = path_info
        elif method == "POST" and route in ("/script", "/lineage", "/directory"):
            key = op.get("key")
            if key is None:
                payload = {}
                spelled = ""
            else:
                spelled = spell(world, op, cwd, roots_before[0])
                payload = {key: spelled}
                absolute = os.path.normpath(os.path.join(cwd, spelled))
                if route == "/directory" and key == "f":
                    lexical_target = os.path.dirname(os.path.normpath(os.path.join(cwd, spelled)).rstrip("/")) if spelled else None
                    # Path(x).parent is lexical on the un-normalised spelling; the directory listed is parent of the spelled path
                    lexical_target = os.path.normpath(os.path.join(cwd, str(Path(spelled).parent)))
                elif route == "/directory" and key == "d":
                    lexical_target = absolute
                elif key == "f":
                    lexical_target = absolute
                elif key == "d":
                    lexical_target = None  # /script|/lineage ignore d: nothing is read through it
            if op.get("second"):
                # both path parameters in one payload (the page forwards its whole query string), either may be empty:
                # whichever the server picks, what it serves must lie under the root - judged from the response alone
                k2 = "d" if key == "f" else "f"
                payload[k2] = spell(world, {"path": op["second"]}, cwd, roots_before[0])
                lexical_target = None
                probe("two_path_parameters")
                if "" in payload.values():
                    probe("two_path_parameters_one_empty")
            if op.get("wrap") and payload:
                # payload SHAPES: the path parameter not as a top-level member but inside a member that an object built
                # from the payload might interpret (__dict__ replaces the attributes of a Namespace), possibly next to
                # an innocent top-level value - judged from the response alone
                inner = dict(payload)
                if op["wrap"] == "dunder_dict":
                    payload = {"__dict__": inner}
                elif op["wrap"] == "dunder_dict_beside_inside":
                    payload = {key: os.path.join(roots_before[0], "a.sql"), "__dict__": inner}
                elif op["wrap"] == "nested":
                    payload = {"args": inner, "params": {"__dict__": inner}}
                elif op["wrap"] == "list_value":
                    payload = {key: [spelled]}
                lexical_target = None
                probe("payload_shape_variant")
            if op.get("extra"):
                payload.update(op["extra"])
            path_info = route + op.get("route_suffix", "")
            if op.get("route_case"):
                path_info = path_info.upper()
        else:
            path_info = op.get("route") or op.get("path_info") or "/"
            spelled = path_info
            if method == "POST":
                payload = {"f": world.p("outside/o.sql")}
        state["inflight"] += 1
        hist_at_start = len(root_hist) - 1
        _faults.active = True
        try:
            status, body, exc = call_app(app, method, path_info, payload)
        finally:
            _faults.active = False
            state["inflight"] -= 1
        roots_after = roots_in_force()
        if method == "POST":
            # every root that was in force at some moment between the request's invoke and return (per request:
            # other clients starting or finishing requests must not disturb this window)
            during = root_hist[hist_at_start:]
            allowed_roots = list(dict.fromkeys([*roots_before, *during, *roots_after]))
            if len(during) > 1:
                probe("threaded_root_move_concurrent")
            # (a request without a usable path parameter - none, an empty one, or one hidden in a member the server does not
            # read - is answered with the configured default directory)
            if route == "/directory" and (op.get("key") is None or op.get("wrap") or (payload is not None and "" in payload.values())):
                allowed_roots.append(os.path.normpath(os.environ.get("SQLLINEAGE_DIRECTORY") or _default_directory()))
        # --- oracle
        text = body.decode("utf-8", "replace")
        leaked = [m for m, path in world.markers.items() if m in text and not any(under(path, r) for r in allowed_roots)]
        outside = lexical_target is not None and not any(under(lexical_target, r) for r in allowed_roots)
        cls = _classify(op, outside, world, lexical_target, allowed_roots)
        for c in cls:
            probe(c)
        events.append([tname, method, path_info if method != "GET" else "GET:" + "|".join(cls), op.get("key"), "|".join(cls), status, exc])
        if leaked:
            violate("disclosure", f"{method} {path_info} payload={json.dumps(payload)} (cwd {os.path.relpath(cwd, world.W)}, root {[os.path.relpath(r, world.W) for r in allowed_roots]}) "
                    f"-> {status}; the body contains markers of {[os.path.relpath(world.markers[m], world.W) for m in leaked][:4]}, which lie outside the root in force: {text[:300]}")
        elif outside and status == 200:
            violate("outside_path_accepted", f"{method} {path_info} payload={json.dumps(payload)} (cwd {os.path.relpath(cwd, world.W)}, root {[os.path.relpath(r, world.W) for r in allowed_roots]}) "
                    f"-> 200 although {os.path.relpath(lexical_target, world.W)} is outside: {text[:300]}")
        # --- response-based checks (independent of how the request was spelled): whatever a 200 answer serves
        # must come from under the root in force, whether or not it carries a marker (e.g. /etc/hostname)
        # (a root in force that is not inside the scratch world - a relative root re-resolved after a chdir can be an
        # ancestor of it, up to "/" - permits whatever lies below it: nothing to check, and walking it would read the disk)
        if status == 200 and viol[0] is None and all(under(r, world.W) for r in allowed_roots):
            def files_under(roots):
                out = set()
                for r in roots:
                    for dp, _dn, fn in os.walk(r):
                        for f in fn:
                            try:
                                with open(os.path.join(dp, f), "rb") as fh:
                                    out.add(fh.read())
                            except OSError:
                                pass
                return out

            if method == "GET":
                if body not in files_under(allowed_roots):
                    violate("served_content_not_under_root", f"GET {path_info} -> 200 with a body that is not the content of any file under the static folder: {text[:200]!r}")
            data = None
            if method == "POST":
                try:
                    data = json.loads(text)
                except ValueError:
                    data = None
                if not isinstance(data, dict):
                    data = None
            if method == "GET":
                pass
            elif data is not None and "content" in data:
                content = data.get("content")
                ok_vals = {b.decode("utf-8", "replace") for b in files_under(allowed_roots)} | {"", (payload or {}).get("e", "")}
                if content is not None and content not in ok_vals:
                    violate("served_content_not_under_root", f"POST {path_info} payload={json.dumps(payload)} -> 200 with content that is not the content of any file under the root in force "
                            f"{[os.path.relpath(r, world.W) for r in allowed_roots]}: {content[:200]!r}")
            elif data is not None and "children" in data:
                listed = data.get("id")
                if listed is not None:
                    la = os.path.normpath(os.path.join(cwd, listed))
                    if not any(under(la, r) for r in allowed_roots):
                        violate("outside_path_accepted", f"POST {path_info} payload={json.dumps(payload)} -> 200 listing {os.path.relpath(la, world.W)!r}, which is outside the root in force "
                                f"{[os.path.relpath(r, world.W) for r in allowed_roots]}")
        if status == 200 and not outside and lexical_target is not None:
            probe("inside_served")
            if method == "GET":
                probe("get_static_served")
            if route == "/lineage":
                probe("lineage_by_file")

    def do_admin(op):
        k = op["op"]
        if k == "root_move":
            newroot = {"root": world.p("root"), "root2": world.p("root2"), "sub": world.p("root/sub"), "W": world.W}[op["to"]]
            if op.get("relative"):
                app.root_path = Path(os.path.relpath(newroot, os.getcwd()))
            else:
                app.root_path = Path(newroot)
            root_hist.append(os.path.normpath(newroot))
            probe("root_moved")
            events.append(["admin", "root_move", op["to"], bool(op.get("relative"))])
        elif k == "chdir":
            os.chdir({"cwd": world.p("cwd"), "root": world.p("root"), "W": world.W, "outside": world.p("outside"),
                      "sub": world.p("root/sub"), "deep": world.p("root/sub/deep") if os.path.isdir(world.p("root/sub/deep")) else world.p("root/sub")}[op["to"]])
            probe("chdir")
            events.append(["admin", "chdir", op["to"]])
        elif k == "dir_env":
            v = {"root": world.p("root"), "root2": world.p("root2"), "outside": world.p("outside"), None: None}[op["to"]]
            if v is None:
                os.environ.pop("SQLLINEAGE_DIRECTORY", None)
            else:
                os.environ["SQLLINEAGE_DIRECTORY"] = v
            events.append(["admin", "dir_env", op["to"]])
        elif k == "fs_mutate":
            kind = op["kind"]
            try:
                if kind == "file_to_dir":
                    path = world.p("root/a.sql")
                    if os.path.isfile(path):
                        m = [m for m, pp in world.markers.items() if pp == path]
                        os.remove(path)
                        os.makedirs(path)
                        for mm in m:
                            del world.markers[mm]
                        world.name_marker("root/a.sql")
                elif kind == "dir_to_file":
                    path = world.p("root/sub/deep")
                    if os.path.isdir(path) and not under(os.getcwd(), path):  # never remove the working directory itself
                        for m in [m for m, pp in world.markers.items() if under(pp, path)]:
                            del world.markers[m]
                        shutil.rmtree(path)
                        world.write_sql("root/sub/deep")
                elif kind == "delete":
                    path = world.p("root/sub/b.sql")
                    if os.path.isfile(path):
                        for m in [m for m, pp in world.markers.items() if pp == path]:
                            del world.markers[m]
                        os.remove(path)
                elif kind == "create":
                    world.write_sql("root/new_%d.sql" % world.n)
                    world.write_sql("outside/new_%d.sql" % world.n)
                probe("fs_mutated")
            except OSError:
                pass
            events.append(["admin", "fs_mutate", kind])

    threaded = len(spec.get("clients", [])) > 1 or spec.get("admin_thread")
    sched = None
    try:
        if spec.get("sweep"):
            # systematic single insertion (sched.InsertAtChooser): after the same warm-up, the intruder's whole
            # operation is inserted at EVERY yield point k of the victim's request; follow-up requests afterwards
            from ..sched import InsertAtChooser

            sw = spec["sweep"]
            gran = sw.get("gran", "instr")
            tracer = None
            steps = 0
            k, total = -1, None
            probe("insertion_sweep")
            try:
                while (total is None or k < total) and viol[0] is None:
                    app.root_path = Path(world.p("root"))
                    root_hist[:] = [os.path.normpath(world.p("root"))]
                    os.chdir(world.p("cwd"))
                    for op in sw.get("warm", []):
                        do_request(op, "warm") if "method" in op else do_admin(op)
                    sched = Scheduler(InsertAtChooser(0, k if k >= 0 else 10 ** 9, 1), max_steps=2_000_000, hang_s=100.0)

                    def vbody():
                        sched.yield_point("op", "request")
                        do_request(sw["victim"], "victim")

                    def ibody():
                        sched.yield_point("op", "intruder")
                        do_request(sw["intruder"], "intruder") if "method" in sw["intruder"] else do_admin(sw["intruder"])

                    sched.spawn("victim", vbody)
                    sched.spawn("intruder", ibody)
                    if tracer is None:
                        tracer = LineTracer(sched, [drawing], granularity=gran)
                        tracer.install()
                    tracer.sched = sched
                    sched.run()
                    for t in sched.threads:
                        if t.exc is not None:
                            if isinstance(t.exc, HarnessError):
                                raise t.exc
                            violate("thread_died", f"thread {t.name} died with {type(t.exc).__name__}: {t.exc}")
                    if total is None:
                        total = min(sched.chooser.count, 3000)
                    steps += sched.step
                    for op in sw.get("follow", []):
                        do_request(op, "follow") if "method" in op else do_admin(op)
                    if viol[0] is not None:
                        viol[0]["message"] += f" [systematic insertion: intruder inserted at yield point {k} of {total} ({gran}) of the victim's request]"
                    k += 1
                    if len(events) > 400:
                        del events[:-50]
            finally:
                if tracer is not None:
                    tracer.uninstall()
            events[:] = [["sweep", json.dumps(sw, sort_keys=True)[:2000], total, bool(viol[0])]]
            schedule = []
            line_digest = ""
        elif not threaded:
            for op in spec["clients"][0]:
                if "method" in op:
                    do_request(op)
                else:
                    do_admin(op)
            steps = len(spec["clients"][0])
            schedule = []
            line_digest = ""
        else:
            if spec.get("schedule") is not None:
                chooser = ReplayChooser(spec["schedule"])
            else:
                chooser = make_chooser(spec["sched"], stream(spec["seed"], "sched"), horizon=1500)
            sched = Scheduler(chooser, max_steps=2_000_000, hang_s=150.0)
            sched.trace_digest = hashlib.sha256()
            for i, prog in enumerate(spec["clients"]):
                def mk(prog=prog, i=i):
                    def body():
                        for op in prog:
                            sched.yield_point("op", "request")
                            do_request(op, f"c{i}")
                    return body
                sched.spawn(f"client{i}", mk())
            if spec.get("admin_thread"):
                def admin_body():
                    for op in spec["admin_thread"]:
                        sched.yield_point("op", "admin")
                        do_admin(op)
                sched.spawn("admin", admin_body)
            tracer = LineTracer(sched, [drawing], granularity=spec.get("gran", "line")) if spec.get("line") else None
            if tracer:
                tracer.install()
            try:
                sched.run()
            finally:
                if tracer:
                    tracer.uninstall()
            for t in sched.threads:
                if t.exc is not None:
                    if isinstance(t.exc, HarnessError):
                        raise t.exc
                    violate("thread_died", f"thread {t.name} died with {type(t.exc).__name__}: {t.exc}")
            steps = sched.step
            schedule = list(sched.schedule)
            line_digest = sched.trace_digest.hexdigest()[:24]
    finally:
        os.chdir(old_cwd)
        if old_home is None:
            os.environ.pop("HOME", None)
        else:
            os.environ["HOME"] = old_home
        drawing.STATIC_FOLDER = old_static
        os.environ.pop("SQLLINEAGE_DIRECTORY", None)
        _faults.active = False
        world.destroy()
    if _faults.fired:
        probe("os_error_fired")
    rr = {
        "verdict": "violation" if viol[0] else "ok",
        "digest": short(events, 24),
        "line_digest": line_digest,
        "steps": steps,
        "faults": {("os_error_" + k): v for k, v in _faults.fired.items()},
        "probes": probes,
        "states": sorted({short([e[1], e[2], e[4] if len(e) > 4 else "", e[5] if len(e) > 5 else ""], 10) for e in events})[:64],
        "nontrivial": any(k.startswith("outside_") or k == "get_outside" for k in probes) or bool(_faults.fired),
        "log_digest": digest([events, schedule]),
        "extra": {"requests": sum(1 for e in events if e[0] != "admin")},
    }
    for k in ("root_move", "chdir", "fs_mutate"):
        n = sum(1 for e in events if e[0] == "admin" and e[1] == k)
        if n:
            rr["faults"][k] = n
    if viol[0]:
        rr["violation"] = viol[0]
        sp = json.loads(json.dumps(spec))
        if threaded:
            sp["schedule"] = schedule
        rr["spec"] = sp
    return rr


def _default_directory():
    import sqllineage

    return os.path.join(os.path.dirname(sqllineage.__file__), "data")


def _classify(op, outside, world, target, roots):
    out = []
    if op["method"] == "GET":
        if outside:
            out.append("get_outside")
        return out
    if op["method"] != "POST" or "path" not in op:
        return out
    segs = op["path"]["segs"]
    if op["path"].get("literal") is not None:
        out.append("literal_expandable_spelling")
    if outside:
        if ".." in segs:
            out.append("outside_dotdot")
        if op["path"]["start"] == "sibling" or "../root_sibling" in "/".join(segs):
            out.append("outside_sibling_prefix")
        out.append("outside_absolute" if op["path"]["abs"] else "outside_relative")
    if op.get("route") == "/directory" and op.get("key") == "f":
        if target is not None and any(os.path.normpath(target) == os.path.normpath(r) for r in roots):
            out.append("directory_of_root_file")
        if op["path"]["start"] == "root" and not [s for s in segs if s not in (".", "")]:
            out.append("directory_f_is_root")
    return out


def execute(arg):
    runs = []
    for i, spec in enumerate(arg["specs"]):
        r = run_one(spec)
        if i == 0 and r["verdict"] == "ok":
            r["sample"] = {"clients": [c[:6] for c in spec["clients"]][:2], "faults": spec.get("faults"), "admin_thread": (spec.get("admin_thread") or [])[:3]}
        runs.append(r)
        if r["verdict"] == "violation":
            break
    return {"runs": runs}


# ---------------------------------------------------------------------------
# generator

SEGS = ["..", ".", "../o.sql", "../../outside/o.sql", "../s.sql", "a.sql", "sub", "sub/b.sql", "sub/deep/c.sql", "../root_sibling", "../root_sibling/s.sql", "../outside", "../outside/o.sql",
        "a.sql/x", "", "deep", "b.sql", "s.sql", "o.sql", "r2.sql", "more", "m.sql", "inner/i.sql", "rel.sql", "etc", "hostname"]


def gen_path(g, inside_bias=True, any_root=False):
    r = g.random()
    if inside_bias and g.random() < 0.05:
        return {"start": "cwd", "segs": [], "abs": False,
                "literal": g.choice(["~/o.sql", "~/more/m.sql", "~", "~/", "~/../outside/o.sql", "$HOME/o.sql", "${HOME}/o.sql", "%7E/o.sql", "~root/o.sql", "~nobody/o.sql",
                                     "./~/o.sql", "~/o.sql/", "%2e%2e/outside/o.sql", "..%2foutside%2fo.sql", "file://" + "/etc/hostname"])}
    if any_root and r < 0.6:
        # threaded class: the root moves between root, root2 and root/sub, so aim at files of EVERY possible root -
        # whichever is not in force right now is an outside path that exists
        start, segs = g.choice([("origroot", ["a.sql"]), ("origroot", ["sub", "b.sql"]), ("origroot", []), ("root2", ["r2.sql"]), ("root2", []),
                                ("root2", ["inner", "i.sql"]), ("sub", ["b.sql"]), ("sub", []), ("sub", ["deep", "c.sql"]), ("origroot", ["sub"])])
        return {"start": start, "segs": list(segs), "abs": True}
    if inside_bias and r > 0.93:
        # detour: out of the root into a directory that exists, on through an entry that is missing (or a regular
        # file), back up with ".." and into the root again BY NAME, ending at a lexically inside location
        start, ghosts = g.choice([("outside", ["ghost", "o.sql", "more/ghost"]), ("sibling", ["ghost", "s.sql"]), ("root2", ["ghost", "r2.sql", "inner/ghost"]),
                                  ("static", ["ghost", "index.html"]), ("cwd", ["ghost", "rel.sql"]), ("W", ["ghost"])])
        gh = g.choice(ghosts).split("/")
        tail = g.choice([["a.sql"], ["gone", "q.sql"], ["sub", "gone", "q.sql"], ["sub", "b.sql"], ["sub"], [], ["gone"], ["a.sql", "x"]])
        return {"start": start, "segs": gh + [".."] * len(gh) + ["@root"] + list(tail), "abs": g.random() < 0.7}
    if inside_bias and r < 0.5:
        start = "root"
        segs = g.choice([["a.sql"], ["sub", "b.sql"], ["sub/deep/c.sql"], ["sub"], [], ["."], ["sub", "..", "a.sql"], ["sub", "deep", "..", "b.sql"], ["", "a.sql"], ["./a.sql"]])
        segs = list(segs)
        if g.random() < 0.3:
            segs = segs + g.choice([[".."], ["..", ".."], ["../root_sibling/s.sql"], ["..", "..", "outside", "o.sql"]])
    else:
        start = g.choice(["root", "root", "W", "outside", "sibling", "cwd", "root2", "fsroot", "static"])
        segs = [g.choice(SEGS) for _ in range(g.choice([0, 1, 1, 2, 2, 3, 4, 5]))]
    return {"start": start, "segs": segs, "abs": g.random() < 0.65}


def gen_request(g, threaded=False):
    r = g.random()
    if threaded:
        r = 0.3 + 0.7 * r  # POST routes: they are the ones that depend on the moving root
    if r < 0.17:
        pi = g.choice(["/", "/index.html", "/js/app.js", "/favicon.ico", "/js", "/../root/a.sql", "/js/../../outside/o.sql", "//etc/hostname", "/./index.html",
                       "/..", "/js/..%2f", "/nonexistent", "/js//app.js", "/" + "/".join(g.choice(SEGS) for _ in range(g.choice([1, 2, 3])))])
        if g.random() < 0.35:
            return {"method": "GET", "get_prefix": g.choice(["/", "/", "//", "/./", ""]), "path": gen_path(g, inside_bias=False, any_root=g.random() < 0.5)}
        return {"method": "GET", "path_info": pi}
    if r < 0.22:
        return {"method": g.choice(["OPTIONS", "PUT", "DELETE", "HEAD"]), "route": g.choice(["/script", "/lineage", "/directory", "/nope"])}
    route = g.choice(["/script", "/script", "/lineage", "/directory", "/directory", "/directory"])
    if route == "/directory":
        key = g.choice(["f", "d", "d", None])
    else:
        key = g.choice(["f", "f", "f", "d"])
    op = {"method": "POST", "route": route, "key": key}
    if g.random() < 0.12:
        # the route itself spelled unusually (whatever the server makes of it, the disclosure rules still hold)
        op["route_suffix"] = g.choice(["/", "//", "/.", "?x=1", "/../directory", " "])
    if g.random() < 0.04:
        op["route_case"] = True
    if key is not None:
        op["path"] = gen_path(g, any_root=threaded)
        g2 = stream(g.randrange(2 ** 48), "second-param")
        if g2.random() < 0.06:
            op["wrap"] = g2.choice(["dunder_dict", "dunder_dict", "dunder_dict_beside_inside", "nested", "list_value"])
        elif g2.random() < 0.12:
            empty = {"start": "cwd", "segs": [], "abs": False, "literal": ""}
            r2 = g2.random()
            if r2 < 0.35:
                op["second"] = op["path"]
                op["path"] = empty
            elif r2 < 0.55:
                op["second"] = empty
            else:
                op["second"] = gen_path(g2, any_root=threaded)
    if route == "/lineage" and g.random() < 0.3:
        op["extra"] = {"dialect": g.choice(["ansi", "non-validating"])}
    if key == "d" and route != "/directory" and g.random() < 0.5:
        op["extra"] = {"e": "select * from dual"}
    return op


def gen_admin(g):
    r = g.random()
    if r < 0.4:
        return {"op": "root_move", "to": g.choice(["root", "root2", "sub", "root2", "W"]), "relative": g.random() < 0.35}
    if r < 0.6:
        return {"op": "chdir", "to": g.choice(["cwd", "root", "W", "outside", "sub", "sub", "deep"])}
    if r < 0.8:
        return {"op": "fs_mutate", "kind": g.choice(["file_to_dir", "dir_to_file", "delete", "create"])}
    return {"op": "dir_env", "to": g.choice(["root", "root2", "outside", None])}


def gen(seed, tier="quick") -> dict:
    g = stream(seed, "gen")
    cls = g.random()
    faults = []
    if g.random() < 0.45:
        for _ in range(g.choice([1, 1, 2])):
            faults.append({"site": g.choice(["open", "open", "exists", "is_dir", "iterdir"]), "n": g.choice([0, 0, 1, 2, 3, 5, 8]), "errno": g.choice(ERRNOS)})
    if cls < (0.65 if tier == "quick" else 0.5):
        ops = []
        for _ in range(g.choice([4, 8, 12, 20, 30])):
            ops.append(gen_admin(g) if g.random() < 0.15 else gen_request(g))
        return {"seed": seed, "clients": [ops], "faults": faults}
    clients = [[gen_request(g, threaded=True) for _ in range(g.choice([3, 5, 8, 12]))] for _ in range(2)]
    admin = [{"op": "root_move", "to": g.choice(["root", "root2", "sub"]), "relative": False} for _ in range(g.choice([1, 2, 4, 6]))]
    return {"seed": seed, "clients": clients, "admin_thread": admin, "faults": faults,
            "sched": g.choice(["random", "sticky", "pct1", "pct2", "pct3", "retbias", "retbias", "retbias"]), "line": True,
            "gran": g.choice(["line", "line", "instr"])}


def gen_sweep(seed) -> dict:
    g = stream(seed, "gen-sweep")
    inside = lambda: {"start": "origroot", "segs": list(g.choice([["a.sql"], ["sub", "b.sql"], ["sub"], [], ["sub", "deep", "c.sql"]])), "abs": True}
    outside = lambda: {"start": g.choice(["outside", "sibling", "root2", "W"]), "segs": list(g.choice([["o.sql"], ["s.sql"], ["r2.sql"], [], ["more", "m.sql"], ["outside", "o.sql"]])), "abs": True}
    route = lambda: g.choice(["/script", "/directory", "/directory", "/lineage"])

    def req(pathf):
        r = route()
        return {"method": "POST", "route": r, "key": g.choice(["f", "d"]) if r == "/directory" else "f", "path": pathf()}

    kind = g.choice(["repeat_forbidden_vs_permitted", "request_vs_root_move", "request_vs_request", "permitted_vs_forbidden"])
    if kind == "repeat_forbidden_vs_permitted":
        f = req(outside)
        sw = {"warm": [json.loads(json.dumps(f))] if g.random() < 0.8 else [], "victim": f, "intruder": req(inside), "follow": [json.loads(json.dumps(f))]}
    elif kind == "permitted_vs_forbidden":
        pth = req(inside)
        sw = {"warm": [json.loads(json.dumps(pth))], "victim": pth, "intruder": req(outside), "follow": [req(outside)]}
    elif kind == "request_vs_root_move":
        to = g.choice(["root2", "sub"])
        v = {"method": "POST", "route": route(), "key": "f", "path": {"start": "origroot", "segs": ["a.sql"], "abs": True}}
        if v["route"] == "/directory":
            v["key"] = g.choice(["f", "d"])
        follow = [{"method": "POST", "route": g.choice(["/script", "/directory"]), "key": "f", "path": {"start": "origroot", "segs": ["a.sql"], "abs": True}},
                  {"method": "POST", "route": "/directory", "key": "d", "path": {"start": "origroot", "segs": [], "abs": True}}]
        sw = {"warm": [{"op": "root_move", "to": "root", "relative": False}] if g.random() < 0.5 else [], "victim": v,
              "intruder": {"op": "root_move", "to": to, "relative": False}, "follow": follow}
    else:
        sw = {"warm": [], "victim": req(g.choice([inside, outside])), "intruder": req(g.choice([inside, outside])), "follow": [req(outside)]}
    sw["gran"] = "instr" if g.random() < 0.7 else "line"
    sw["kind"] = kind
    return {"seed": seed, "clients": [[]], "faults": [], "sweep": sw}


def plan(seed: int, tier: str) -> list[dict]:
    master = stream(seed, "c17-plan")
    n = {"quick": 10_000, "thorough": 300_000}[tier]
    block = 50
    units = []
    for b in range(n // block):
        units.append({"key": {"hash_seed": b % 3}, "specs": [gen(master.randrange(2 ** 48), tier) for _ in range(block)], "wall_s": 300.0})
    nsw = {"quick": 160, "thorough": 4000}[tier]
    for b in range(nsw // 8):
        units.insert(b * 3, {"key": {"hash_seed": 0}, "specs": [gen_sweep(master.randrange(2 ** 48)) for _ in range(8)], "wall_s": 300.0})
    return units


def shrink_candidates(spec):
    out = []
    cp = lambda: json.loads(json.dumps(spec))
    if spec.get("faults"):
        s = cp()
        s["faults"] = []
        out.append(s)
    if spec.get("admin_thread"):
        s = cp()
        s["admin_thread"] = []
        out.append(s)
    if len(spec["clients"]) > 1:
        for i in range(len(spec["clients"])):
            s = cp()
            del s["clients"][i]
            s.pop("schedule", None)
            if len(s["clients"]) == 1 and not s.get("admin_thread"):
                s.pop("sched", None)
            out.append(s)
    for i, prog in enumerate(spec["clients"]):
        # halves first, then single operations
        n = len(prog)
        if n > 3:
            for lo, hi in ((0, n // 2), (n // 2, n)):
                s = cp()
                s["clients"][i] = prog[lo:hi]
                out.append(s)
        for j in range(n):
            s = cp()
            del s["clients"][i][j]
            if s["clients"][i] or len(s["clients"]) > 1:
                out.append(s)
    for i, prog in enumerate(spec["clients"]):
        for j, op in enumerate(prog):
            if "path" in op and len(op["path"]["segs"]) > 1:
                for k in range(len(op["path"]["segs"])):
                    s = cp()
                    del s["clients"][i][j]["path"]["segs"][k]
                    out.append(s)
    return out
