"""C14 -- a default schema equals explicit qualification.

What simulation decides here is *when and where the default is read*
(DESIGN.md 4.6): process lifetimes (zygote started with or without
SQLLINEAGE_DEFAULT_SCHEMA before ``import sqllineage``), threads analysing
concurrently under different scoped defaults while an operator flips the
environment, and histories of one thread analysing under S1, then S2, then
none.  The input dimension is a fixed, committed template set
(sim/templates_c14.py).

Oracle: canonical dump of the bare rendering under default S == canonical dump
of the S-qualified rendering under no default, computed beforehand in a fresh
fork of a zygote with a clean environment (the reference).
"""
from __future__ import annotations

import hashlib
import json
import os
import sys

from .. import canon
from ..framework import Agg, job
from ..sched import HarnessError, LineTracer, ReplayChooser, Scheduler, current, make_chooser
from ..templates_c14 import SCHEMAS, TEMPLATES, ZOO, ZOO_DIALECTS, render
from ..util import digest, short, stream

ID = "C14"
PRELOAD = ["sqllineage.runner", "sim.props.c14"]
BUDGET_S = {"quick": 240.0, "thorough": 1500.0}
ENVVAR = "SQLLINEAGE_DEFAULT_SCHEMA"
ACC = [a for a in canon.ACCESSORS if a not in ("statements", "print_table", "print_column")]
TPL = {t[0]: t for t in TEMPLATES + ZOO}

DESCRIPTION = {
    "rule": (
        "fixed template set (one or more per site where a Table is constructed, both analyzers, 11 dialects) + the dialect zoo (every ansi-written "
        "template under 26 further sqlfluff dialects: 1,274 pairs, a third of the dialects per seed in quick; pairs that do not parse there are counted "
        "and skipped) + single-dialect corpus statements x default schema in "
        "{unset, fresh name, a name already used as a qualifier} x mechanism in {environment set before import, environment set after "
        "import, scoped override, none} x process lifetime (zygote imported with or without SQLLINEAGE_DEFAULT_SCHEMA) x 1-3 caller "
        "threads each running a history of analyses under different scoped defaults, pre-empted at every source line of config.py and "
        "core/models.py, while an operator thread flips the environment variable; every analysis is compared with the S-qualified "
        "rendering analysed under no default in a clean process. Distinct = sha256 of the operation-level event sequence; non-trivial "
        "iff the run had >=2 different defaults in flight, an import-time default that differs from the run-time one, an environment "
        "flip during a scoped analysis, or a history S1 -> S2 -> none on one thread."
    ),
    "real_code": ["sqllineage/core/models.py (Schema, Table)", "sqllineage/config.py", "both analyzers' table factories", "LineageRunner"],
    "stubs": ["thread scheduling (baton)", "threading as seen by sqllineage.config: get_ident / enumerate / current_thread answer with simulated identities; a quarter of the threads of multi-thread runs are unknown to the threading module (raw _thread / C-created)", "process environment flips by an operator actor"],
    "assumptions": [
        "crash points inside an analysis are the source lines of config.py and core/models.py executed by it (every Schema / Table / Column built, every configuration read) - never inside the configuration's own __call__ / __enter__ / __exit__; line granularity only",
        "the template set is fixed and committed: the input dimension (programs) is not searched here",
        "the qualifier-fallback site Table(qualifier) for a column qualifier that names no relation in scope is invalid SQL and is not templated",
        "environment flips happen only while every analysing thread is inside a scoped override (a flip during an environment-driven analysis would legitimately change its meaning mid-way)",
        "statements()/print accessors are excluded from the comparison: the two renderings differ textually by construction",
    ],
    "required_probes": {
        "quick": ["two_defaults_in_flight", "import_time_default_differs", "env_flip_during_scoped", "history_s1_s2_none", "mechanism_env_after_import",
                  "mechanism_scoped", "mechanism_preimport", "no_default_placeholder", "retry_after_failed_evaluation", "earlier_analysis_crashed_inside", "insertion_sweep", "dialect_zoo_compared", "foreign_thread", "env_changed_then_threads_analyse_concurrently",
                  "second_analysis_in_the_same_block"],
        "thorough": ["two_defaults_in_flight", "import_time_default_differs", "env_flip_during_scoped", "history_s1_s2_none"],
    },
}


from ..sched import ThreadingShim as _ThreadingShim  # noqa: E402  (simulated identity: get_ident, enumerate, current_thread)


# ---------------------------------------------------------------------------
# child side


_CORPUS = None


def corpus():
    """Single-dialect corpus statements harvested from the repository's own tests (no metadata, no special config):
    for these the qualified rendering is not built textually; the relation checked is the one the property implies
    for one and the same text - the result under default S equals the result under no default with the
    placeholder schema replaced by S."""
    global _CORPUS
    if _CORPUS is None:
        import os as _os

        from ..util import VERIF_DIR

        with open(_os.path.join(VERIF_DIR, "corpus", "corpus.json")) as f:
            items = json.load(f)
        # inputs pinned as open findings of C11 (hash-seed dependent export) are not comparable across zygotes
        from ..framework import load_known

        skip = {" ".join(e["input"]["sql"].split()) for e in load_known("C11") if e.get("status") == "open" and "input" in e}
        _CORPUS = [it for it in items if not it.get("meta") and not it.get("cfg") and "<default>" not in it["sql"] and "zz9" not in it["sql"].lower()
                   and " ".join(it["sql"].split()) not in skip]
    return _CORPUS


def _subst(o, S):
    if isinstance(o, str):
        return o.replace("<default>", S)
    if isinstance(o, list):
        return [_subst(x, S) for x in o]
    if isinstance(o, dict):
        return {k: _subst(v, S) for k, v in o.items()}
    return o


def _resort(d):
    # substitution can change the sorted order of name lists: compare the corpus class order-insensitively
    out = {}
    for k, v in d.items():
        if isinstance(v, list):
            out[k] = sorted(v, key=lambda x: json.dumps(x, sort_keys=True))
        elif isinstance(v, str):
            out[k] = sorted(v.splitlines())
        else:
            out[k] = v
    return out


def analyse(tid: str, schema_in_text, dialect=None):
    from sqllineage.runner import LineageRunner

    if tid.startswith("corpus:"):
        it = corpus()[int(tid.split(":")[1])]
        d = canon.dump(LineageRunner(it["sql"], dialect=it["dialect"]), ACC)
        if schema_in_text:  # reference side: what the same text gives under no default, placeholder replaced
            d = _subst(d, schema_in_text)
        return _resort(d)
    _id, d, sql = TPL[tid]
    return canon.dump(LineageRunner(render(sql, schema_in_text), dialect=d), ACC)


class InjectedCrash(BaseException):
    """Lands inside an analysis (BaseException: no library handler may swallow it, like KeyboardInterrupt)."""


def analyse_raw(tid: str):
    """The bare rendering of a template, every accessor called; the result is discarded (exceptions of the library's
    own are the caller's business, an InjectedCrash propagates)."""
    from sqllineage.runner import LineageRunner

    try:
        runner = LineageRunner(render(TPL[tid][2], None), dialect=TPL[tid][1])
        runner.get_column_lineage()
        runner.source_tables
    except InjectedCrash:
        raise
    except Exception:
        pass


def reference(arg: dict) -> dict:
    """Clean process: the S-qualified rendering under no default; and the bare rendering under no default."""
    if os.environ.get(ENVVAR):
        raise HarnessError("reference zygote is not clean")
    out = {}
    for tid, S in arg["specs"][0]["cases"]:
        out[f"{tid}|{S}"] = analyse(tid, S)
    return {"runs": [{"refs": out}]}


def _dispatch_tap(event, payload):
    t = current()
    h = t.ctx.get("tap") if t is not None else None
    if h is not None:
        h(event, payload)


def _desc(tid):
    if tid.startswith("corpus:"):
        it = corpus()[int(tid.split(":")[1])]
        return f"{it['dialect']}: `{' '.join(it['sql'].split())[:160]}`"
    return f"{TPL[tid][1]}: `{render(TPL[tid][2], None)}`"


_tracer = None


def run_one(spec: dict) -> dict:
    global _tracer
    import sqllineage.config as cfgmod
    import sqllineage.core.models as models_mod
    from sqllineage.config import SQLLineageConfig

    if not isinstance(cfgmod.threading, _ThreadingShim):
        cfgmod.threading = _ThreadingShim()
    pre = (spec.get("pre_env") or {}).get(ENVVAR)
    if (os.environ.get(ENVVAR) or None) != (pre or None):
        raise HarnessError(f"zygote environment {os.environ.get(ENVVAR)!r} does not match the spec's pre-import environment {pre!r}")
    refs = spec["refs"]
    events = []
    probes = {}
    viol = [None]
    hint = [None]
    env_now = [pre]
    in_scoped = {}

    def probe(n):
        probes[n] = probes.get(n, 0) + 1

    def violate(c, m, t):
        if viol[0] is None:
            viol[0] = {"class": c, "message": m, "thread": t, "at_seq": len(events)}

    if spec.get("schedule") is not None:
        chooser = ReplayChooser(spec["schedule"])
    elif spec.get("insert_at") is not None:
        from ..sched import InsertAtChooser

        ia = spec["insert_at"]
        chooser = InsertAtChooser(ia["victim"], ia["k"] if ia["k"] >= 0 else 10 ** 9, ia["intruder"], ia.get("prefix", 0))
    else:
        chooser = make_chooser(spec["sched"], stream(spec["seed"], "sched"), horizon=2000)
    sched = Scheduler(chooser, max_steps=3_000_000, hang_s=150.0)
    sched.trace_digest = hashlib.sha256()

    def set_env(v):
        if v is None:
            os.environ.pop(ENVVAR, None)
        else:
            os.environ[ENVVAR] = v
        env_now[0] = v

    def on_yield(t, kind, detail):
        # crash point inside an analysis: an exception lands at the k-th traced source line (config.py / core/models.py:
        # every Schema / Table / Column built while a statement is extracted, every configuration read) executed by this
        # thread's "crashed_before" analysis. Never inside the configuration's own enter / exit / call (cleanup handlers).
        k = t.ctx.get("crash_k")
        if k is None or kind != "line" or not isinstance(detail, tuple) or detail[0] in ("__enter__", "__exit__", "__call__"):
            return
        n = t.ctx.get("crash_n", 0)
        t.ctx["crash_n"] = n + 1
        if n == k:
            t.ctx["crash_k"] = None
            raise InjectedCrash(f"injected at traced line {k} ({detail[0]})")

    sched.on_yield = on_yield

    def crashed_before(t, cb):
        # history in this thread: an earlier analysis under another default dies part-way - anywhere inside it
        from sqllineage.config import SQLLineageConfig as _cfg

        t.ctx["crash_k"], t.ctx["crash_n"] = cb["k"], 0
        try:
            if cb["S0"] is None:
                analyse_raw(cb["tpl"])
            else:
                with _cfg(DEFAULT_SCHEMA=cb["S0"]):
                    analyse_raw(cb["tpl"])
            probe("earlier_analysis_completed_before_crash_point")
        except InjectedCrash:
            probe("earlier_analysis_crashed_inside")
        finally:
            t.ctx["crash_k"] = None

    def step(t, st):
        tid, S, mech = st["tpl"], st["S"], st["mech"]
        sched.yield_point("op", "analyse")
        if st.get("crashed_before") and spec.get("line") and spec.get("gran", "line") == "line":
            crashed_before(t, st["crashed_before"])
        if "@" in tid and any(isinstance(v, dict) and "exception" in v for k_ in (f"{tid}|{S}", f"{tid}|None") for v in refs[k_].values()):
            # this dialect does not take the bare or the qualified rendering: nothing to compare
            probe("dialect_zoo_not_comparable")
            return
        others = {v for k, v in in_scoped.items() if k != t.idx and v is not None}
        if mech == "scoped" and st.get("retry_after") is not None and not tid.startswith("corpus:"):
            # history on ONE runner object: a first evaluation under another default is interrupted at its second
            # statement (an exception out of the statement tap), then the same runner is evaluated again under S
            from sqllineage.runner import LineageRunner
            from sqllineage.utils import verif as tapmod

            probe("retry_after_failed_evaluation")
            in_scoped[t.idx] = S
            runner = LineageRunner(render(TPL[tid][2], None), dialect=TPL[tid][1])
            me = t

            def tap(event, payload):
                if event == "stmt.begin" and payload.get("index") == 1 and current() is me and payload.get("runner") is runner:
                    raise RuntimeError("injected: first evaluation interrupted")

            first = st["retry_after"]
            # one process-wide tap dispatcher; the handler itself is per simulated thread (another thread's retry
            # step must neither replace nor remove this one's)
            tapmod.set_tap(_dispatch_tap)
            t.ctx["tap"] = tap
            try:
                if first == "none":
                    try:
                        runner.statements()
                    except RuntimeError:
                        pass
                else:
                    with SQLLineageConfig(DEFAULT_SCHEMA=first):
                        try:
                            runner.statements()
                        except RuntimeError:
                            pass
            finally:
                t.ctx["tap"] = None
            env_before = env_now[0]
            with SQLLineageConfig(DEFAULT_SCHEMA=S):
                got = canon.dump(runner, ACC)
            in_scoped[t.idx] = None
            eff = S
        elif mech == "scoped":
            probe("mechanism_scoped")
            in_scoped[t.idx] = S
            if others and any(o != S for o in others):
                probe("two_defaults_in_flight")
            if pre and pre != S:
                probe("import_time_default_differs")
            env_before = env_now[0]
            with SQLLineageConfig(DEFAULT_SCHEMA=S):
                got = analyse(tid, None)
                # several analyses inside ONE block: the override lasts until the block ends, whatever ran in it before
                for extra in st.get("then") or []:
                    probe("second_analysis_in_the_same_block")
                    got2 = analyse(extra, None)
                    want2 = refs[f"{extra}|{S}"]
                    events.append([t.idx, extra, S, "scoped-then", short(got2, 12)])
                    if got2 != want2:
                        k2 = [a for a in ACC if got2.get(a) != want2.get(a)]
                        violate("default_schema_not_equivalent",
                                f"template {extra} ({_desc(extra)}) analysed under default {S!r} in the same scoped block after {tid} ({_desc(tid)}) differs from the qualified "
                                f"rendering in {k2[:3]}: got {json.dumps(got2[k2[0]])[:300]} expected {json.dumps(want2[k2[0]])[:300]}", t.idx)
            if env_now[0] != env_before:
                probe("env_flip_during_scoped")
            in_scoped[t.idx] = None
            eff = S
        elif mech == "env":
            probe("mechanism_env_after_import")
            if pre != S:
                probe("import_time_default_differs")
            set_env(S)
            try:
                got = analyse(tid, None)
            finally:
                set_env(pre)
            eff = S
        elif mech == "preimport":
            probe("mechanism_preimport")
            got = analyse(tid, None)
            eff = pre
        else:  # none: whatever the environment says right now (unset in these runs)
            got = analyse(tid, None)
            eff = env_now[0]
            if eff is None:
                probe("no_default_placeholder")
        want = refs[f"{tid}|{eff}"]
        events.append([t.idx, tid, S, mech, short(got, 12)])
        if got != want and viol[0] is None:
            hint[0] = [t.idx, tid, S, mech]
        if "@" in tid:
            probe("dialect_zoo_compared")
        if got != want:
            k = [a for a in ACC if got.get(a) != want.get(a)]
            violate(
                "default_schema_not_equivalent",
                f"template {tid} ({_desc(tid)}) under default {eff!r} via {mech} "
                f"(process imported with {ENVVAR}={pre!r}) differs from the qualified rendering in {k[:3]}: "
                f"got {json.dumps(got[k[0]])[:300]} expected {json.dumps(want[k[0]])[:300]}",
                t.idx,
            )

    if "env0" in spec:
        set_env(spec["env0"])
        probe("env_changed_then_threads_analyse_concurrently")
    for i, prog in enumerate(spec["threads"]):
        def mk(prog=prog):
            def body():
                t = current()
                hist = []
                for st in prog:
                    step(t, st)
                    hist.append(st["S"] if st["mech"] != "none" else None)
                if len(prog) >= 3 and hist[-1] is None and len({h for h in hist[:-1] if h}) >= 2:
                    probe("history_s1_s2_none")
            return body
        st_ = sched.spawn(f"t{i}", mk(), ident=5000 + i)
        if i in (spec.get("foreign") or []):
            st_.ctx["foreign"] = True  # a thread the threading module does not list (raw _thread / C-created request thread)
            probe("foreign_thread")
    if spec.get("operator"):
        def op_body():
            t = current()
            for v in spec["operator"]:
                sched.yield_point("op", "env")
                # only while every analysing thread is inside a scoped override
                set_env(v)
                events.append([t.idx, "env", v])
            sched.yield_point("op", "env")
            set_env(pre)
        sched.spawn("operator", op_body, ident=5900)

    if spec.get("line"):
        gran = spec.get("gran", "line")
        # the tracer stays installed across the runs of one child (re-arming sys.monitoring thousands of times is
        # slow); it is re-installed only when the granularity changes
        if _tracer is not None and _tracer.granularity != gran:
            _tracer.uninstall()
            _tracer = None
        if _tracer is None:
            _tracer = LineTracer(sched, [cfgmod, models_mod], granularity=gran)
            _tracer.install()
        _tracer.sched = sched
        _tracer.enabled = True
    elif _tracer is not None:
        _tracer.enabled = False
    try:
        sched.run()
    finally:
        if _tracer is not None:
            _tracer.enabled = False
        set_env(pre)
    for t in sched.threads:
        if t.exc is not None:
            if isinstance(t.exc, HarnessError):
                raise t.exc
            violate("thread_died", f"thread {t.name} died with {type(t.exc).__name__}: {t.exc}", t.idx)
    faults = {}
    if spec.get("operator"):
        faults["env_flip"] = len(spec["operator"])
    if pre:
        faults["preimport_env"] = 1
    rr = {
        "victim_yields": getattr(sched.chooser, "count", None),
        "verdict": "violation" if viol[0] else "ok",
        "digest": short([pre, [[(s["tpl"], s["S"], s["mech"]) for s in p] for p in spec["threads"]], spec.get("operator")], 24),
        "line_digest": sched.trace_digest.hexdigest()[:24],
        "steps": sched.step,
        "faults": faults,
        "probes": probes,
        "states": [],
        "nontrivial": any(k in probes for k in ("two_defaults_in_flight", "import_time_default_differs", "env_flip_during_scoped", "history_s1_s2_none")),
        "log_digest": digest([events, sched.schedule]),
        "extra": {"analyses": sum(len(p) for p in spec["threads"])},
    }
    if viol[0]:
        rr["violation"] = viol[0]
        sp = json.loads(json.dumps({k: v for k, v in spec.items() if k != "refs"}))
        sp["schedule"] = list(sched.schedule)
        if hint[0] is not None:
            sp["failing_step"] = hint[0]  # (for the minimiser only: which step's answer differed)
        rr["spec"] = sp
    return rr


SMALL = ["from_item", "from_item_legacy", "insert_select", "insert_select_legacy", "ctas", "update_const", "insert_values", "create_like",
         "mixed_ctas_qualified_source", "swap_snowflake", "vertica_swap_partitions", "vertica_swap_partitions_legacy", "drop_after_write", "cte_shadow_legacy"]


def run_sweep(spec: dict) -> dict:
    """Systematic single insertion: thread 1's whole analysis (under its own default) is inserted at EVERY yield
    point (source line / function return, or bytecode instruction, of config.py and core/models.py) of thread 0's."""
    k, total, steps, nsub, first = -1, None, 0, 0, None
    while total is None or k < total:
        sp = {kk: v for kk, v in spec.items() if kk != "isweep"}
        sp["insert_at"] = dict(spec["isweep"], k=k)
        r = run_one(sp)
        nsub += 1
        steps += r["steps"]
        if total is None:
            total = min(r.get("victim_yields") or 0, 120)
            first = r
        if r["verdict"] == "violation":
            r["violation"]["message"] += f" [systematic insertion: thread 1's analysis inserted at yield point {k} of {total} of thread 0's]"
            r["steps"] = steps
            if r.get("spec"):
                r["spec"].pop("insert_at", None)
                r["spec"]["isweep"] = spec["isweep"]
            return r
        k += 1
    first["steps"] = steps
    first["probes"] = dict(first["probes"], insertion_sweep=1)
    first["extra"] = dict(first.get("extra") or {}, sweep_subruns=nsub)
    first["digest"] = short(["sweep", spec["threads"], spec["isweep"], spec.get("gran")], 24)
    first["log_digest"] = digest(["sweep", first["log_digest"], total])
    return first


def gen_sweep(seed) -> dict:
    g = stream(seed, "gen-sweep")
    s1, s2 = g.sample(SCHEMAS, 2)
    pre = g.choice([None, None, "imp"])
    follow = {"tpl": g.choice(SMALL), "S": g.choice([s1, s2]), "mech": "scoped"}
    return {"seed": seed, "pre_env": ({ENVVAR: pre} if pre else {}), "hash_seed": 0,
            "threads": [[{"tpl": g.choice(SMALL), "S": s1, "mech": "scoped"}, follow], [{"tpl": g.choice(SMALL), "S": s2, "mech": "scoped"}]],
            "operator": [], "sched": "sticky", "line": True, "gran": "line",
            "isweep": {"victim": 0, "intruder": 1, "prefix": 0}}


def execute(arg):
    runs = []
    for i, spec in enumerate(arg["specs"]):
        r = run_sweep(spec) if spec.get("isweep") else run_one(spec)
        if i == 0 and r["verdict"] == "ok":
            r["sample"] = {"pre_env": spec.get("pre_env"), "threads": [[{k: s[k] for k in ("tpl", "S", "mech")} for s in p] for p in spec["threads"]],
                           "operator": spec.get("operator"), "sched": spec.get("sched")}
        runs.append(r)
        if r["verdict"] == "violation":
            break
    return {"runs": runs}


# ---------------------------------------------------------------------------
# driver side


def zoo_dialects_for(tier: str, seed: int) -> list:
    """quick: a third of the dialect zoo per seed (rotating) plus the dialects pinned findings live in; thorough: all."""
    if tier != "quick":
        return list(ZOO_DIALECTS)
    return [d for i, d in enumerate(ZOO_DIALECTS) if (i + seed) % 3 == 0 or d in ("redshift",)]


def _needed(spec) -> set:
    need = set()
    pre = (spec.get("pre_env") or {}).get(ENVVAR)
    for p in spec["threads"]:
        for st in p:
            for S in {st["S"], pre, None, spec.get("env0")} | set(spec.get("operator") or []):
                need.add((st["tpl"], S))
            for extra in st.get("then") or []:
                need.add((extra, st["S"]))
    return need


def compute_refs(pool, zoo_dialects=None, cases=None) -> dict:
    mod = sys.modules[__name__]
    zoo_dialects = ZOO_DIALECTS if zoo_dialects is None else zoo_dialects
    if cases is None:
        cases = [[t[0], S] for t in TEMPLATES for S in [None] + SCHEMAS + ["imp"]]
        cases += [[f"corpus:{i}", S] for i in range(len(corpus())) for S in [None, "zz9", "s1", "imp"]]
        cases += [[t[0], S] for t in ZOO if t[1] in zoo_dialects for S in [None, "s1", "used"]]
    chunks = [cases[i::16] for i in range(16)]
    jobs = [{"key": {"hash_seed": 0, "env": {}}, "module": mod.__name__, "fn": "reference", "arg": {"specs": [{"cases": c}]}, "wall_s": 300.0} for c in chunks if c]
    refs = {}
    for r in pool.run(jobs):
        if r is None or not r.get("ok"):
            raise HarnessError(f"reference computation failed: {r}")
        refs.update(r["result"]["runs"][0]["refs"])
    return refs


def _with_refs(spec, refs):
    need = set()
    pre = (spec.get("pre_env") or {}).get(ENVVAR)
    for p in spec["threads"]:
        for st in p:
            for S in {st["S"], pre, None, spec.get("env0")} | set(spec.get("operator") or []):
                need.add(f"{st['tpl']}|{S}")
            for extra in st.get("then") or []:
                need.add(f"{extra}|{st['S']}")
    s = dict(spec)
    s["refs"] = {k: refs[k] for k in need if k in refs}
    return s


def key_of(spec):
    return {"hash_seed": spec.get("hash_seed", 0), "env": dict(spec.get("pre_env") or {})}


def gen(seed) -> dict:
    g = stream(seed, "gen")
    tids = [t[0] for t in TEMPLATES]
    schemas = SCHEMAS
    if g.random() < 0.25:
        # this run draws its statements from the harvested corpus instead of the templates
        n_c = len(corpus())
        tids = [f"corpus:{g.randrange(n_c)}" for _ in range(6)]
        schemas = ["zz9", "s1"]  # the defaults for which corpus references are computed
    pre = g.choice([None, None, "imp", "imp", "s1"])
    mode = g.choice(["scoped_threads", "scoped_threads", "env_history", "preimport"])
    threads = []
    operator = []
    if stream(seed, "gen-env-shared").random() < 0.12:
        # the environment mechanism with several analysing threads: the variable was changed (or removed) since the
        # process last looked, then 2-3 threads analyse at the same time under whatever it says now - nobody flips it
        # during the run, so every analysis has one right answer
        ge = stream(seed, "gen-env-shared-body")
        env0 = ge.choice([x for x in ["s1", "used", "q", None] if x != pre and (x is not None or pre is not None)])
        small = [t for t in SMALL if t in TPL]
        threads = [[{"tpl": ge.choice(small), "S": None, "mech": "none"} for _ in range(ge.choice([1, 1, 2]))] for _ in range(ge.choice([2, 2, 3]))]
        return {"seed": seed, "pre_env": ({ENVVAR: pre} if pre else {}), "hash_seed": ge.choice([0, 1]), "threads": threads, "operator": [], "env0": env0,
                "env_shared": True, "sched": ge.choice(["random", "sticky50", "pct1", "pct2", "pct3", "retbias", "retbias"]), "line": True,
                "gran": ge.choice(["line", "line", "instr"]), "foreign": []}
    if mode == "scoped_threads":
        n = g.choice([1, 2, 2, 3])
        for _ in range(n):
            prog = []
            for _ in range(g.choice([1, 2, 3])):
                st = {"tpl": g.choice(tids), "S": g.choice(schemas), "mech": "scoped"}
                if g.random() < 0.15:
                    multi = [t for t in tids if not t.startswith("corpus:") and ";" in TPL[t][2]]
                    if multi:
                        st["tpl"] = g.choice(multi)
                        st["retry_after"] = g.choice([x for x in SCHEMAS if x != st["S"]] + ["none"])
                if prog and g.random() < 0.3 and "retry_after" not in st:
                    # the same statement text again, later in this process, under another default (text-keyed caches)
                    st["tpl"] = g.choice(prog)["tpl"]
                gt = stream(seed, f"gen-then-{len(threads)}-{len(prog)}")
                if "retry_after" not in st and gt.random() < 0.3:
                    if gt.random() < 0.5 and not tids[0].startswith("corpus:"):
                        st["tpl"] = gt.choice(["scalar_subquery_both_ways", "scalar_subquery_q", "case_subquery", "where_subquery_both_ways", "scalar_subquery_both_ways_legacy"])
                    st["then"] = [gt.choice(tids) for _ in range(gt.choice([1, 1, 2]))]
                gc = stream(seed, f"gen-crash-{len(threads)}-{len(prog)}")
                if "retry_after" not in st and not tids[0].startswith("corpus:") and gc.random() < 0.2:
                    small_ = [t for t in SMALL if t in TPL]
                    st["crashed_before"] = {"tpl": gc.choice(small_), "S0": gc.choice([x for x in SCHEMAS if x != st["S"]] + [None]),
                                            "k": gc.choice([0, 1, 2, 3, 5, 8, 13, 21, 34, 55, 89]) + gc.randrange(0, 8)}
                prog.append(st)
            threads.append(prog)
        if g.random() < 0.6:
            operator = [g.choice(SCHEMAS + [None, "imp"]) for _ in range(g.choice([2, 3, 4, 6]))]
    elif mode == "env_history":
        prog = []
        for _ in range(g.choice([2, 3, 4])):
            m = g.choice(["env", "env", "scoped", "none"])
            S = g.choice(schemas)
            if m == "none":
                if pre:
                    m, S = "preimport", pre
                else:
                    S = None
            prog.append({"tpl": g.choice(tids), "S": S, "mech": m})
        if g.random() < 0.5:
            prog.append({"tpl": g.choice(tids), "S": pre, "mech": "preimport" if pre else "none"})
        threads.append(prog)
    else:
        prog = [{"tpl": g.choice(tids), "S": pre, "mech": "preimport" if pre else "none"} for _ in range(g.choice([1, 2]))]
        threads.append(prog)
    fg = stream(seed, "gen-foreign")
    return {
        "seed": seed, "pre_env": ({ENVVAR: pre} if pre else {}), "hash_seed": g.choice([0, 1]), "threads": threads, "operator": operator,
        "sched": g.choice(["random", "sticky", "pct1", "pct2", "pct3", "retbias"]), "line": g.random() < 0.7,
        "gran": g.choice(["line"] * 11 + ["instr"]),
        "foreign": [i for i in range(len(threads)) if len(threads) > 1 and fg.random() < 0.25],
    }


def sweep(zoo_dialects=None) -> list[dict]:
    """Every template under every lifetime x mechanism (single thread, no pre-emption)."""
    out = []
    zoo_dialects = ZOO_DIALECTS if zoo_dialects is None else zoo_dialects
    n = 0
    for pre in (None, "imp"):
        for tid, _d, _s in TEMPLATES:
            progs = []
            for S in ("s1", "used"):
                progs.append({"tpl": tid, "S": S, "mech": "scoped"})
                progs.append({"tpl": tid, "S": S, "mech": "env"})
            progs.append({"tpl": tid, "S": pre, "mech": "preimport" if pre else "none"})
            if ";" in _s:
                progs.append({"tpl": tid, "S": "s1", "mech": "scoped", "retry_after": "zz9"})
                progs.append({"tpl": tid, "S": "used", "mech": "scoped", "retry_after": "none"})
            n += 1
            out.append({"seed": 9000 + n, "pre_env": ({ENVVAR: pre} if pre else {}), "hash_seed": 0, "threads": [progs], "operator": [],
                        "sched": "sticky", "line": False})
    for d in zoo_dialects:
        zt = [t[0] for t in ZOO if t[1] == d]
        for half in (zt[0::2], zt[1::2]):
            progs = []
            for tid in half:
                progs.append({"tpl": tid, "S": "s1", "mech": "scoped"})
                progs.append({"tpl": tid, "S": "used", "mech": "env"})
                progs.append({"tpl": tid, "S": None, "mech": "none"})
            n += 1
            out.append({"seed": 9000 + n, "pre_env": {}, "hash_seed": 0, "threads": [progs], "operator": [], "sched": "sticky", "line": False, "zoo_sweep": True})
    n_c = len(corpus())
    for pre in (None, "imp"):
        for lo in range(0, n_c, 40):
            progs = []
            for i in range(lo, min(n_c, lo + 40)):
                progs.append({"tpl": f"corpus:{i}", "S": "zz9", "mech": "scoped"})
                if (i + (1 if pre else 0)) % 2 == 0:
                    progs.append({"tpl": f"corpus:{i}", "S": "s1", "mech": "env"})
                else:
                    progs.append({"tpl": f"corpus:{i}", "S": pre, "mech": "preimport" if pre else "none"})
            n += 1
            out.append({"seed": 9000 + n, "pre_env": ({ENVVAR: pre} if pre else {}), "hash_seed": 0, "threads": [progs], "operator": [],
                        "sched": "sticky", "line": False, "corpus_sweep": True})
    return out


def search(pool, tier: str, seed: int, deadline: float, agg: Agg) -> None:
    mod = sys.modules[__name__]
    zd = zoo_dialects_for(tier, seed)
    refs = dict(getattr(search, "refs", None) or {})
    refs.update(compute_refs(pool, zoo_dialects=zd))
    search.refs = refs
    master = stream(seed, "c14-plan")
    specs = sweep(zd)
    n = {"quick": 1300, "thorough": 40000}[tier]
    specs += [gen(master.randrange(2 ** 48)) for _ in range(n)]
    specs += [gen_sweep(master.randrange(2 ** 48)) for _ in range({"quick": 10, "thorough": 1000}[tier])]
    # group by zygote key, blocks of 4
    by = {}
    for s in specs:
        by.setdefault(json.dumps(key_of(s), sort_keys=True), []).append(s)
    units = []
    for k, lst in by.items():
        # one simulated run per fork: a run must carry its whole process history itself (a violation that needs
        # something an EARLIER spec of the same child did would not replay from its own file)
        for i in range(0, len(lst), 1):
            units.append((json.loads(k), [_with_refs(s, refs) for s in lst[i:i + 1]]))
    units.sort(key=lambda u: u[1][0]["seed"] % 97)
    jobs = [job(mod, k, sp, 300.0) for k, sp in units]
    agg.planned = len(specs)

    def on_result(i, r):
        if not r.get("ok"):
            agg.harness.append((i, r))
            return
        agg.logdig[i] = [rr.get("log_digest", "") for rr in r["result"]["runs"]]
        for kx, rr in enumerate(r["result"]["runs"]):
            agg.add((i, kx), units[i][0], rr)

    pool.run(jobs, deadline=deadline, on_result=on_result, stop_when=lambda: len(agg.violations) >= 8 or len(agg.harness) > 0)


def eval_many(pool, key, specs):
    mod = sys.modules[__name__]
    refs = getattr(search, "refs", None)
    if refs is None:
        refs = search.refs = {}
    # (pinned inputs and replays are evaluated before / without a search: compute just the references they need)
    missing = sorted({c for s in specs for c in _needed(s) if f"{c[0]}|{c[1]}" not in refs and (c[0] in TPL or c[0].startswith("corpus:"))}, key=str)
    if missing:
        refs.update(compute_refs(pool, cases=[list(c) for c in missing]))
    jobs = [job(mod, key_of(s), [_with_refs(s, refs)], 300.0) for s in specs]
    out = []
    for r in pool.run(jobs):
        out.append(None if (r is None or not r.get("ok")) else r["result"]["runs"][0])
    return out


def pinned(entries):
    return [(e, key_of(e["spec"]), e["spec"]) for e in entries if "spec" in e]


def shrink_candidates(spec):
    out = []
    cp = lambda: json.loads(json.dumps({k: v for k, v in spec.items() if k != "refs"}))
    fs = spec.get("failing_step")
    if fs and sum(len(p) for p in spec["threads"]) > 2 and fs[0] < len(spec["threads"]):
        # first try: the one step whose answer differed, alone (then: that step after its predecessors only)
        prog = spec["threads"][fs[0]]
        idx = [j for j, st in enumerate(prog) if [st["tpl"], st["S"], st["mech"]] == fs[1:]]
        if idx:
            for keep in ([prog[idx[0]]], prog[:idx[0] + 1]):
                s = cp()
                s["threads"] = [keep]
                s["schedule"] = []
                s["operator"] = [] if len(keep) == 1 else s.get("operator", [])
                s.pop("failing_step", None)
                out.append(s)
    if len(spec["threads"]) > 1:
        for i in range(len(spec["threads"])):
            s = cp()
            del s["threads"][i]
            s["foreign"] = [(f - 1 if f > i else f) for f in (s.get("foreign") or []) if f != i]
            if s.get("schedule") is not None:
                s["schedule"] = [(-1 if c == i else (c - 1 if c > i else c)) for c in s["schedule"]]
            out.append(s)
    if spec.get("operator"):
        s = cp()
        s["operator"] = []
        out.append(s)
    if spec.get("line"):
        s = cp()
        s["line"] = False
        s["schedule"] = []
        out.append(s)
    if spec.get("schedule"):
        s = cp()
        s["schedule"] = []
        out.append(s)
    for i, p in enumerate(spec["threads"]):
        if len(p) > 1:
            for j in range(len(p)):
                s = cp()
                del s["threads"][i][j]
                out.append(s)
    if spec.get("pre_env"):
        s = cp()
        if all(st["mech"] != "preimport" for p in s["threads"] for st in p):
            s["pre_env"] = {}
            out.append(s)
    return out
