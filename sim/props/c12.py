"""C12 -- runs are isolated from one another.

Real code: LineageRunner._eval, both analyzers, holders, MetaDataProvider /
MetaDataSession, DummyMetaDataProvider, the module-level default provider.
Stub: SimProvider (harness subclass of the public MetaDataProvider base class;
its session half is the real base-class code).  Seams: thread schedule (baton;
yield points at provider lookups, taps and source lines of runner.py /
metadata_provider.py [/ holders.py]), provider failure on the j-th lookup,
exceptions out of taps at run boundaries, a bad statement at position k.

Oracles (DESIGN.md 4.2): O1 result isolation against an isolated reference
computed in a fresh fork; O2 session hygiene whenever a run ends and the
provider is quiescent; O3 narrow relaxation for the run that got the fault.
"""
from __future__ import annotations

import hashlib
import json
import os

from .. import canon
from ..gen_sql import BAD_UNPARSABLE, BAD_UNSUPPORTED, BASE_META, UNIVERSE, ScriptGen
from ..sched import HarnessError, LineTracer, ReplayChooser, Scheduler, current, make_chooser, no_preempt
from ..util import digest, short, stream

ID = "C12"
PRELOAD = ["sqllineage.runner", "sim.props.c12"]
BUDGET_S = {"quick": 240.0, "thorough": 1500.0}

ACC_POOL = ["statements", "source_tables", "target_tables", "intermediate_tables", "col_tt", "col_ff", "cyto_table", "cyto_column", "str"]
PROBE_TABLES = UNIVERSE + sorted(BASE_META)

DESCRIPTION = {
    "rule": (
        "each simulated run = 1-4 caller threads, each analysing a sequence of 1-4 generated scripts (2-5 statements over a shared "
        "table universe, column names unique per run) with its own providers (SimProvider / DummyMetaDataProvider, reused across "
        "runs) or the shared default provider, under a seeded schedule with pre-emption at provider lookups, taps and source lines "
        "of runner.py/metadata_provider.py(/holders.py); faults: bad statement at position k, provider raising on its j-th lookup, "
        "exception out of a tap between statements. Every unfaulted analysis is compared with the same analysis alone in a fresh "
        "fork (O1) and every provider is probed for leftovers when quiescent (O2). Distinct = sha256 of the operation-level event "
        "sequence; non-trivial iff >=1 probe hit (failed run after a registration, provider reused after a failed run, overlapping "
        "non-empty sessions, default provider used concurrently, same text under two providers). World classes mixed in: T-SQL split-mode "
        "runs, a 17-form dialect zoo, corpus inputs, silent mode, two project directories whose .sqlfluff give one templated text two meanings, "
        "and the same statement text under T-SQL split mode (possibly failing before it) and under another dialect in which it reads differently."
    ),
    "real_code": [
        "sqllineage/runner.py", "sqllineage/core/metadata_provider.py (session logic)", "sqllineage/core/metadata/dummy.py",
        "sqllineage/core/holders.py", "both analyzers (sqlfluff, sqlparse)", "sqlfluff, sqlparse, networkx",
        "sqllineage/cli.py (main, -e / -f, table and column level)", "sqllineage/drawing.py (POST /lineage through the WSGI callable; wsgiref's socket layer is not exercised)",
    ],
    "stubs": ["SimProvider._get_table_columns (dict-backed, yields the baton, injects failures)", "thread scheduling (baton)",
              "threading.Lock/RLock objects created by sqllineage modules are SimLock scheduling points (none exist on the unchanged tree)"],
    "assumptions": [
        "dependencies (sqlfluff, sqlparse, networkx) are atomic with respect to pre-emption",
        "crash points are call-out boundaries (provider lookups, taps) and every source line of LineageRunner._eval itself; not arbitrary bytecodes, and never inside a cleanup handler",
        "the isolated reference is the same analysis alone in a fresh fork of the same zygote (same hash seed): a wrong-but-stable answer is invisible here",
        "each non-default provider is used by one thread at a time ('their own providers'); requests to the web application (one provider per process) are issued by one thread, one after the other",
        "entry-point worlds: what a command-line call prints is captured per simulated thread (sys.stdout is replaced by a dispatcher for the world)",
    ],
    "required_probes": {
        "quick": ["run_failed_after_registration", "provider_reused_after_failed_run", "overlapping_nonempty_sessions",
                  "default_provider_concurrent", "hygiene_probe", "insertion_sweep", "same_text_tsql_split_then_other_dialect", "project_sqlfluff_config",
                  "entry_cli", "entry_server"],
        "thorough": ["run_failed_after_registration", "provider_reused_after_failed_run", "overlapping_nonempty_sessions",
                     "default_provider_concurrent", "hygiene_probe", "same_text_two_providers", "sqlalchemy_provider", "tsql_split_mode", "silent_mode",
                     "entry_cli", "entry_server", "entry_cli_file"],
    },
}


class InjectedFault(Exception):
    """Raised by the simulator out of a collaborator call or tap."""


class InjectedRuntimeError(RuntimeError):
    pass


def _exc(kind: str):
    from sqllineage.exceptions import MetaDataProviderException

    return {
        "InjectedFault": InjectedFault("injected"),
        "RuntimeError": InjectedRuntimeError("injected provider failure"),
        "MetaDataProviderException": MetaDataProviderException("injected provider failure"),
        "KeyError": KeyError("injected"),
    }[kind]


INJECTED_NAMES = {"InjectedFault", "InjectedRuntimeError", "MetaDataProviderException", "KeyError"}

# ---------------------------------------------------------------------------
# providers

_world = None  # the World of the run executing in this child


def _make_sim_provider_class():
    from sqllineage.core.metadata_provider import MetaDataProvider

    class SimProvider(MetaDataProvider):
        def __init__(self, meta):
            super().__init__()
            self.meta = {k: list(v) for k, v in meta.items()}

        def _get_table_columns(self, schema, table, **kwargs):
            w = _world
            t = current()
            if w is not None and t is not None and not t.no_preempt:
                w.on_lookup(t, self, f"{schema}.{table}")
            return list(self.meta.get(f"{schema}.{table}", []))

    return SimProvider


_SimProvider = None


_sa_count = [0]


def build_sqlalchemy_provider(meta: dict):
    """The real SQLAlchemyMetaDataProvider over file-backed sqlite databases in the run's scratch directory (one
    shared connection, so that ATTACHed schemas persist and simulated threads can use it one at a time)."""
    import tempfile

    from sqlalchemy import text
    from sqlalchemy.pool import StaticPool

    from sqllineage.core.metadata.sqlalchemy import SQLAlchemyMetaDataProvider

    base = os.environ.get("VERIF_WORK") or tempfile.gettempdir()
    _sa_count[0] += 1
    d = tempfile.mkdtemp(prefix=f"c12sa{os.getpid()}_{_sa_count[0]}_", dir=base)
    prov = SQLAlchemyMetaDataProvider(f"sqlite:///{d}/main.db", {"poolclass": StaticPool, "connect_args": {"check_same_thread": False}})
    with prov.engine.connect() as conn:
        for schema in sorted({k.split(".")[0] for k in meta}):
            conn.execute(text(f"ATTACH DATABASE '{d}/{schema}.db' AS '{schema}'"))
        for full, cols in sorted(meta.items()):
            schema, table = full.split(".")
            conn.execute(text(f"CREATE TABLE {schema}.{table} ({', '.join(c + ' INTEGER' for c in cols)})"))
        conn.commit()
    return prov


def build_provider(ps: dict):
    global _SimProvider
    if ps["kind"] == "sqlalchemy":
        return build_sqlalchemy_provider(ps["meta"])
    if ps["kind"] == "sim":
        if _SimProvider is None:
            _SimProvider = _make_sim_provider_class()
        return _SimProvider(ps["meta"])
    from sqllineage.core.metadata.dummy import DummyMetaDataProvider

    return DummyMetaDataProvider(dict(ps["meta"]))


def probe_provider(prov) -> dict:
    from sqllineage.core.models import Table

    return {t: [str(c) for c in prov.get_table_columns(Table(t))] for t in PROBE_TABLES}



# ---------------------------------------------------------------------------
# entry points other than the Python API (round 11): the command line (`sqllineage.cli.main`, which builds its own
# provider per call) and the bundled web application (`POST /lineage`, whose provider is one object shared by all
# requests of the process - so requests of one world are issued by one thread, sequentially)


class _ThreadStdout:
    """sys.stdout of an entry-point world: what a simulated thread prints while it is inside a command-line run goes
    to that run's buffer (a process-wide redirect would mix the output of interleaved runs)."""

    def __init__(self, real):
        self.real = real

    def _target(self):
        t = current()
        buf = t.ctx.get("stdout") if t is not None else None
        return buf if buf is not None else self.real

    def write(self, s):
        self._target().write(s)
        return len(s)

    def flush(self):
        pass

    def __getattr__(self, name):
        return getattr(self.real, name)


def _canon_cli(level, text):
    lines = text.splitlines()
    if level == "table" or not any(canon._SUBQ.search(l) for l in lines):
        return [canon._rw(l) for l in lines]
    return sorted(canon._rw(l) for l in lines)


def entry_call(run: dict, sql: str, sim_thread=None):
    """One analysis through the command line or the web application; returns [[accessor, canonical value]]."""
    import io

    if run["entry"] == "cli":
        import contextlib

        from sqllineage.cli import main

        args = ["-d", run["dialect"], "-l", run["level"]]
        if run.get("verbose"):
            args.append("-v")
        if run.get("silent"):
            args.append("--silent_mode")
        if run.get("_cli_file"):
            with no_preempt(), open(run["_cli_file"], "w") as f:
                f.write(sql)
            args += ["-f", run["_cli_file"]]
        else:
            args += ["-e", sql]
        buf = io.StringIO()
        try:
            if sim_thread is not None:
                sim_thread.ctx["stdout"] = buf
                try:
                    main(args)
                finally:
                    sim_thread.ctx["stdout"] = None
            else:
                with contextlib.redirect_stdout(buf):
                    main(args)
            val = _canon_cli(run["level"], buf.getvalue())
        except (Exception, SystemExit) as e:
            val = {"exception": type(e).__name__}
        return [["cli", val]]
    if run["entry"] == "server":
        from sqllineage.drawing import app

        body = json.dumps({"e": sql, "dialect": run["dialect"]}).encode()
        env = {"REQUEST_METHOD": "POST", "PATH_INFO": "/lineage", "CONTENT_LENGTH": str(len(body)), "wsgi.input": io.BytesIO(body)}
        got = {}

        def start_response(status, headers):
            got["status"] = status

        try:
            chunks = app(env, start_response)
            payload = json.loads(b"".join(chunks))
            if isinstance(payload, dict) and "dag" in payload:
                val = {"status": got.get("status"), "verbose": canon._rw(payload["verbose"]), "dag": canon._cyto(payload["dag"]), "column": canon._cyto(payload["column"])}
            else:
                val = {"status": got.get("status"), "body": canon._rw_obj(payload)}
        except Exception as e:
            val = {"exception": type(e).__name__}
        return [["server", val]]
    raise ValueError(run["entry"])


def server_provider():
    from sqllineage.drawing import app

    return app.metadata_provider

# ---------------------------------------------------------------------------
# one analysis (used both inside the simulation and for the isolated reference)


def analyse(run: dict, prov):
    from sqllineage.config import SQLLineageConfig
    from sqllineage.runner import LineageRunner

    kwargs = {"dialect": run["dialect"], "silent_mode": bool(run.get("silent"))}
    if prov is not None:
        kwargs["metadata_provider"] = prov
    if run.get("_file_path"):
        kwargs["file_path"] = run["_file_path"]
    sql = run.get("sep", ";\n").join(run["script"])

    def go():
        if run.get("entry"):
            return entry_call(run, sql)
        try:
            runner = LineageRunner(sql, **kwargs)
        except Exception as e:  # (strict-warnings worlds: the constructor itself may warn)
            return [[a, {"exception": type(e).__name__}] for a in run["accessors"]]
        out = []
        for a in run["accessors"]:
            out.append([a, canon.call(runner, a)])
        return out

    if run.get("cfg"):
        with SQLLineageConfig(**run["cfg"]):
            return go()
    return go()


def reference(run: dict, ps) -> list:
    """The same analysis alone in a fresh fork of this (so far pristine) process."""
    r, w = os.pipe()
    pid = os.fork()
    if pid == 0:
        try:
            os.close(r)
            prov = build_provider(ps) if ps is not None else None
            out = {"dump": analyse(run, prov)}
        except BaseException as e:
            out = {"error": f"{type(e).__name__}: {e}"}
        data = json.dumps(out).encode()
        off = 0
        while off < len(data):
            off += os.write(w, data[off: off + 65536])
        os._exit(0)
    os.close(w)
    chunks = []
    while True:
        b = os.read(r, 1 << 16)
        if not b:
            break
        chunks.append(b)
    os.close(r)
    os.waitpid(pid, 0)
    out = json.loads(b"".join(chunks))
    if "error" in out:
        raise HarnessError("reference computation failed: " + out["error"])
    return out["dump"]


# ---------------------------------------------------------------------------


class World:
    def __init__(self, spec):
        self.spec = spec
        self.sched = None
        self.events = []
        self.violation = None
        self.probes = {}
        self.faults = {}
        self.active = {}  # provider id -> number of runs currently using it
        self.session_nonempty = {}  # thread idx -> bool (its current run registered something)
        self.failed_on = set()  # provider ids that saw a failed run

    def probe(self, n):
        self.probes[n] = self.probes.get(n, 0) + 1

    def fault(self, n):
        self.faults[n] = self.faults.get(n, 0) + 1

    def log(self, tidx, kind, detail):
        self.events.append([len(self.events), tidx, kind, detail])

    def violate(self, vclass, msg, tidx):
        if self.violation is None:
            self.violation = {"class": vclass, "message": msg, "thread": tidx, "at_seq": len(self.events)}

    # collaborator: provider lookup
    def on_lookup(self, t, prov, table):
        rec = t.ctx.get("run")
        if rec is None:
            return
        self.sched.yield_point("lookup", table)
        j = rec["lookups"]
        rec["lookups"] += 1
        for f in rec["run"].get("faults", ()):
            if f["kind"] == "provider_raise" and f["j"] == j and not f.get("_fired"):
                f["_fired"] = True
                rec["fault_fired"] = True
                self.fault("provider_raise")
                self.log(t.idx, "fault", ["provider_raise", j, f["exc"]])
                raise _exc(f["exc"])

    # taps from the guarded hooks in /repo
    def on_tap(self, event, payload):
        t = current()
        if t is None or t.no_preempt:
            return
        rec = t.ctx.get("run")
        if rec is None:
            return
        if event == "session.register":
            rec["registered"] += 1
            self.session_nonempty[t.idx] = True
            if sum(1 for v in self.session_nonempty.values() if v) >= 2:
                self.probe("overlapping_nonempty_sessions")
        if event == "session.lookup" and rec["prov_kind"] != "sim":
            # providers the harness cannot subclass: the lookup tap is the collaborator boundary
            self.on_lookup(t, payload.get("provider"), payload.get("table"))
            return
        self.sched.yield_point("tap", event)
        if event in ("stmt.begin", "stmt.analyzed", "stmt.end", "run.assembled"):
            idx = payload.get("index", -1)
            for f in rec["run"].get("faults", ()):
                if f["kind"] == "tap_raise" and f["event"] == event and f.get("index", -1) in (idx, -1) and not f.get("_fired"):
                    f["_fired"] = True
                    rec["fault_fired"] = True
                    self.fault("tap_raise")
                    self.log(t.idx, "fault", ["tap_raise", event, idx])
                    raise _exc(f.get("exc", "InjectedFault"))


def _first_diff(a, b):
    for (n1, v1), (n2, v2) in zip(a, b):
        if v1 != v2:
            return f"accessor {n1}: got {json.dumps(v1)[:700]} expected {json.dumps(v2)[:700]}"
    return "length differs"


_tracer = None


def run_one(spec: dict) -> dict:
    import warnings

    saved_filters = warnings.filters[:]
    if spec.get("werror"):
        # the process runs with warnings escalated to errors (-W error / pytest filterwarnings=error): what a script
        # gives then - often an exception - is still a function of the script alone (the references are computed in
        # forks of this process, under the same filters)
        warnings.simplefilter("error")
    try:
        return _run_one(spec)
    finally:
        warnings.filters[:] = saved_filters
        warnings._filters_mutated()


def _run_one(spec: dict) -> dict:
    global _world, _tracer
    import sqllineage.core.holders as holders_mod
    import sqllineage.core.metadata_provider as mp_mod
    import sqllineage.runner as runner_mod
    from sqllineage.utils import verif as tapmod

    # 0. project directories: each holds a .sqlfluff whose jinja context gives the SAME templated statement text a
    # different meaning (the file_path argument of LineageRunner makes sqlfluff read the script's own directory)
    if spec.get("projects"):
        import tempfile

        basedir = os.environ.get("VERIF_WORK") or tempfile.gettempdir()
        pdir = tempfile.mkdtemp(prefix="c12proj-", dir=basedir)
        for pi, ctx in enumerate(spec["projects"]):
            d = os.path.join(pdir, f"p{pi}")
            os.makedirs(d)
            with open(os.path.join(d, ".sqlfluff"), "w") as f:
                f.write("[sqlfluff:templater:jinja:context]\n" + "".join(f"{k}={v}\n" for k, v in sorted(ctx.items())))
        for th in spec["threads"]:
            for run in th["runs"]:
                if run.get("project") is not None:
                    run["_file_path"] = os.path.join(pdir, f"p{run['project']}", "script.sql")
    if any(run.get("cli_file") for th in spec["threads"] for run in th["runs"]):
        import tempfile

        basedir = os.environ.get("VERIF_WORK") or tempfile.gettempdir()
        cdir = tempfile.mkdtemp(prefix="c12cli-", dir=basedir)
        n = 0
        for th in spec["threads"]:
            for run in th["runs"]:
                if run.get("cli_file"):
                    n += 1
                    run["_cli_file"] = os.path.join(cdir, f"script{n}.sql")
    # 1. isolated references first, while this process is still pristine and single-threaded
    refs = dict(spec.get("_refs") or {})
    for th in spec["threads"]:
        for run in th["runs"]:
            ps = spec["providers"][run["provider"]] if run["provider"] is not None else None
            clean = {k: v for k, v in run.items() if k != "faults"}
            key = digest([{k: v for k, v in clean.items() if k not in ("_file_path", "_cli_file")}, ps])
            if key not in refs:
                refs[key] = reference(clean, ps)
            run["_ref"] = key

    w = World(spec)
    _world = w
    if spec.get("schedule") is not None:
        chooser = ReplayChooser(spec["schedule"])
    elif spec.get("insert_at") is not None:
        from ..sched import InsertAtChooser

        ia = spec["insert_at"]
        chooser = InsertAtChooser(ia["victim"], ia["k"] if ia["k"] >= 0 else 10 ** 9, ia["intruder"], ia.get("prefix", 0))
    else:
        chooser = make_chooser(spec["sched"], stream(spec["seed"], "sched"), horizon=spec.get("horizon", 800))
    sched = Scheduler(chooser, max_steps=2_000_000, hang_s=110.0)
    sched.trace_digest = hashlib.sha256()
    w.sched = sched
    providers = [build_provider(ps) for ps in spec["providers"]]
    default_prov = [d for d in runner_mod.LineageRunner.__init__.__defaults__ if isinstance(d, mp_mod.MetaDataProvider)][0]
    def on_yield(t, kind, detail):
        # crash point inside the runner's own body: an exception lands at the k-th source line executed by
        # LineageRunner._eval of this run (the analogue of a KeyboardInterrupt / timeout hitting the caller there).
        # Only _eval's own lines - never inside a cleanup handler, where no implementation could cope.
        if kind != "line" or not isinstance(detail, tuple) or detail[0] != "_eval":
            return
        rec = t.ctx.get("run")
        if rec is None:
            return
        k = rec.get("eval_lines", 0)
        rec["eval_lines"] = k + 1
        for f in rec["run"].get("faults", ()):
            if f["kind"] == "line_raise" and f["k"] == k and not f.get("_fired"):
                f["_fired"] = True
                rec["fault_fired"] = True
                w.fault("line_raise")
                w.log(t.idx, "fault", ["line_raise", k])
                raise InjectedFault(f"injected at line event {k} of _eval")

    sched.on_yield = on_yield
    tapmod.set_tap(w.on_tap)
    if not tapmod.ENABLED:
        raise HarnessError("taps are not enabled (SQLLINEAGE_VERIF!=1 at import)")
    texts_by_provider = {}

    def hygiene(t, pid, where):
        if pid == "server":
            prov, ps = server_provider(), {"kind": "dummy", "meta": {}}
        else:
            prov = providers[pid] if pid is not None else default_prov
            ps = spec["providers"][pid] if pid is not None else {"kind": "dummy", "meta": {}}
        with no_preempt():
            got = probe_provider(prov)
            if ps["kind"] == "sqlalchemy":  # a fresh one answers straight from the tables that were created
                want = {t: [f"{t}.{c}" for c in ps["meta"].get(t, [])] for t in PROBE_TABLES}
            else:
                want = probe_provider(build_provider(ps))
        w.probe("hygiene_probe")
        if got != want:
            bad = {k: got[k] for k in got if got[k] != want[k]}
            w.violate("session_leak", f"provider {pid} ({ps['kind']}) is not clean {where}: answers {bad} but a fresh provider answers "
                      f"{ {k: want[k] for k in bad} }", t.idx if t else -1)

    def exec_run(t, run):
        pid = run["provider"]
        prov = providers[pid] if pid is not None else None
        rec = {"run": run, "lookups": 0, "registered": 0, "fault_fired": False,
               "prov_kind": spec["providers"][pid]["kind"] if pid is not None else "default"}
        t.ctx["run"] = rec
        pkey = "default" if pid is None else pid
        if run.get("entry"):
            pkey = run["entry"]  # the command line builds a provider per call; the web application owns one
        w.active[pkey] = w.active.get(pkey, 0) + 1
        if pid is None and w.active[pkey] >= 2:
            w.probe("default_provider_concurrent")
        if pkey in w.failed_on:
            w.probe("provider_reused_after_failed_run")
        txt = "\n".join(run["script"])
        texts_by_provider.setdefault(txt, set()).add(pkey)
        if len(texts_by_provider[txt]) >= 2:
            w.probe("same_text_two_providers")
        w.session_nonempty[t.idx] = False
        w.log(t.idx, "run.start", [run["tag"], run["dialect"], pkey])
        if rec["prov_kind"] == "sqlalchemy":
            w.probe("sqlalchemy_provider")
        if run["dialect"] == "tsql":
            w.probe("tsql_split_mode")
        if run.get("silent"):
            w.probe("silent_mode")
        if run["dialect"] not in ("ansi", "non-validating", "tsql"):
            w.probe("dialect_zoo")
        if run["tag"].startswith("corpus"):
            w.probe("corpus_input")
        if run.get("xdialect"):
            w.probe("same_text_tsql_split_then_other_dialect")
        if run.get("oversized"):
            w.probe("statement_beyond_splitter_guards")
        if spec.get("werror"):
            w.probe("strict_warnings_world")
        if run.get("scalar_subquery"):
            w.probe("scalar_subquery_nested_runner")
        if run.get("tsql_plain"):
            w.probe("tsql_plain_mode_without_semicolons")
            if spec.get("werror"):
                w.probe("strict_warnings_tsql_split_and_plain_mode")
        fired_at = None
        out = []
        try:
            from sqllineage.config import SQLLineageConfig
            from sqllineage.runner import LineageRunner

            kwargs = {"dialect": run["dialect"], "silent_mode": bool(run.get("silent"))}
            if prov is not None:
                kwargs["metadata_provider"] = prov
            if run.get("_file_path"):
                kwargs["file_path"] = run["_file_path"]
                w.probe("project_sqlfluff_config")
            sql = run.get("sep", ";\n").join(run["script"])

            def go():
                nonlocal fired_at
                if run.get("entry"):
                    w.probe("entry_" + run["entry"])
                    if run.get("_cli_file"):
                        w.probe("entry_cli_file")
                    out.extend(entry_call(run, sql, sim_thread=t))
                    if rec["fault_fired"]:
                        fired_at = 0
                    return
                try:
                    runner = LineageRunner(sql, **kwargs)
                except Exception as e:  # (strict-warnings worlds: the constructor itself may warn)
                    out.extend([a, {"exception": type(e).__name__}] for a in run["accessors"])
                    return
                for i, a in enumerate(run["accessors"]):
                    before = rec["fault_fired"]
                    out.append([a, canon.call(runner, a)])
                    if rec["fault_fired"] and not before:
                        fired_at = i

            if run.get("cfg"):
                with SQLLineageConfig(**run["cfg"]):
                    go()
            else:
                go()
        finally:
            t.ctx["run"] = None
            w.session_nonempty[t.idx] = False
            w.active[pkey] -= 1
        failed = any(isinstance(v, dict) and "exception" in v for _, v in out)
        if failed:
            w.failed_on.add(pkey)
            if rec["registered"] > 0:
                w.probe("run_failed_after_registration")
        # O1 / O3
        ref = refs[run["_ref"]]
        judged = [(i, a, v) for i, (a, v) in enumerate(out) if fired_at is None or i > fired_at]
        for i, a, v in judged:
            if v != ref[i][1]:
                w.violate(
                    "result_differs",
                    f"thread {t.idx} run {run['tag']} ({run['dialect']}, provider {pkey}): accessor {a} differs from the isolated reference: "
                    f"got {json.dumps(v)[:600]} expected {json.dumps(ref[i][1])[:600]}",
                    t.idx,
                )
                break
        w.log(t.idx, "run.end", [run["tag"], "failed" if failed else "ok", rec["lookups"], rec["registered"], short(out, 12)])
        # O2: whenever a run ends and its provider is quiescent
        if w.active[pkey] == 0 and pkey != "cli":  # (a command-line call builds and drops its own provider: nothing to probe)
            hygiene(t, "server" if pkey == "server" else pid, f"after run {run['tag']} ({'failed' if failed else 'ok'})")

    for i, th in enumerate(spec["threads"]):
        def mk(th=th):
            def body():
                t = current()
                for run in th["runs"]:
                    sched.yield_point("op", "run")
                    exec_run(t, run)
            return body
        sched.spawn(f"t{i}", mk())

    import sqllineage.core.parser.sqlfluff.analyzer as fluff_analyzer_mod
    import sqllineage.core.parser.sqlparse.analyzer as parse_analyzer_mod

    import sqllineage.utils.helpers as helpers_mod

    mods = {"runner": runner_mod, "metadata_provider": mp_mod, "holders": holders_mod, "analyzer": fluff_analyzer_mod, "legacy_analyzer": parse_analyzer_mod,
            "helpers": helpers_mod}
    want = [mods[m] for m in spec.get("line", [])]
    if _tracer is not None:
        _tracer.uninstall()
        _tracer = None
    if want:
        _tracer = LineTracer(sched, want, granularity=spec.get("gran", "line"))
        _tracer.install()
    import sys

    real_stdout = sys.stdout
    if any(r.get("entry") == "cli" for th in spec["threads"] for r in th["runs"]):
        sys.stdout = _ThreadStdout(real_stdout)
    try:
        sched.run()
    finally:
        sys.stdout = real_stdout
        if _tracer is not None:
            _tracer.enabled = False
        tapmod.set_tap(None)
    for t in sched.threads:
        if t.exc is not None:
            if isinstance(t.exc, HarnessError):
                raise t.exc
            w.violate("thread_died", f"thread {t.name} died with {type(t.exc).__name__}: {t.exc}", t.idx)
    # global quiescence: every provider, including the shared default one
    for pid in [None] + list(range(len(providers))) + (["server"] if any(r.get("entry") == "server" for th in spec["threads"] for r in th["runs"]) else []):
        hygiene(None, pid, "after all runs ended")
    _world = None
    for th in spec["threads"]:
        for run in th["runs"]:
            run.pop("_ref", None)
            run.pop("_file_path", None)
            run.pop("_cli_file", None)
            for f in run.get("faults", ()):
                f.pop("_fired", None)
    op_events = [[e[1], e[2], e[3]] for e in w.events]
    res = {
        "_refs": refs if spec.get("insert_at") is not None else None,
        "victim_yields": getattr(sched.chooser, "count", None),
        "verdict": "violation" if w.violation else "ok",
        "digest": short(op_events, 24),
        "line_digest": sched.trace_digest.hexdigest()[:24],
        "steps": sched.step,
        "faults": w.faults,
        "probes": w.probes,
        "states": [],
        "nontrivial": any(k != "hygiene_probe" for k in w.probes),
        "log_digest": digest([w.events, sched.schedule]),
        "extra": {"analyses": sum(len(th["runs"]) for th in spec["threads"]), "references_computed": len(refs)},
    }
    if w.violation:
        res["violation"] = w.violation
        sp = json.loads(json.dumps({kk: v for kk, v in spec.items() if kk != "_refs"}))
        sp["schedule"] = list(sched.schedule)
        res["spec"] = sp
    return res


def run_sweep(spec: dict) -> dict:
    """Systematic single insertion: thread 1's whole run is inserted at EVERY collaborator-level yield point
    (provider lookup, tap; the first 80) of thread 0's run."""
    k, total, steps, nsub, first = -1, None, 0, 0, None
    while total is None or k < total:
        sp = json.loads(json.dumps({kk: v for kk, v in spec.items() if kk != "isweep"}))
        sp["insert_at"] = dict(spec["isweep"], k=k)
        if first is not None:
            sp["_refs"] = refs_once  # the isolated references are computed once per sweep
        r = run_one(sp)
        if first is None:
            refs_once = r.get("_refs") or {}
        r.pop("_refs", None)
        nsub += 1
        steps += r["steps"]
        if total is None:
            total = min(r.get("victim_yields") or 0, 80)
            first = r
        if r["verdict"] == "violation":
            r["violation"]["message"] += f" [systematic insertion: thread 1's run inserted at yield point {k} of {total} of thread 0's]"
            r["steps"] = steps
            if r.get("spec"):
                r["spec"].pop("insert_at", None)
                r["spec"]["isweep"] = spec["isweep"]
            return r
        k += 1
    first["steps"] = steps
    first["probes"] = dict(first["probes"], insertion_sweep=1)
    first["extra"] = dict(first.get("extra") or {}, sweep_subruns=nsub)
    first["digest"] = short(["sweep", spec["threads"], spec["isweep"]], 24)
    first["log_digest"] = digest(["sweep", first["log_digest"], total])
    return first


def gen_sweep(seed) -> dict:
    g = stream(seed, "gen-sweep")
    shared_default = g.random() < 0.4
    providers = [{"kind": g.choice(["sim", "dummy"]), "meta": dict(BASE_META)} for _ in range(2)]
    tag = f"r{g.randrange(1, 4)}"  # the two runs often collide on names
    a = gen_run(g, tag, None if shared_default else 0, allow_faults=False)
    b = gen_run(g, tag if g.random() < 0.6 else "r9", None if shared_default else 1, allow_faults=g.random() < 0.3)
    follow = gen_run(g, "r7", None if shared_default else 0, allow_faults=False, special=False)
    return {"seed": seed, "providers": providers, "projects": [], "threads": [{"runs": [a, follow]}, {"runs": [b]}],
            "sched": "sticky", "line": [], "gran": "line", "horizon": 100,
            "isweep": {"victim": 0, "intruder": 1, "prefix": 0}}


def execute(arg: dict) -> dict:
    runs = []
    for i, spec in enumerate(arg["specs"]):
        r = run_sweep(spec) if spec.get("isweep") else run_one(spec)
        if i == 0 and r["verdict"] == "ok":
            r["sample"] = {"threads": [[{k: v for k, v in run.items() if k in ("tag", "script", "dialect", "provider", "faults")} for run in th["runs"]] for th in spec["threads"]][:2],
                           "sched": spec["sched"], "line": spec.get("line"), "steps": r["steps"]}
        runs.append(r)
        if r["verdict"] == "violation":
            break
    return {"runs": runs}


# ---------------------------------------------------------------------------
# generator


def gen_tsql_run(g, tag, provider):
    """tsql split mode: statements are not separated by semicolons; the analyzer keeps a per-run split cache."""
    n = g.choice([2, 3, 4])
    stmts = []
    for i in range(n):
        src = g.choice(sorted(BASE_META) + UNIVERSE)
        tgt = g.choice(UNIVERSE)
        if g.random() < 0.3:
            stmts.append(f"INSERT INTO {tgt} SELECT * FROM {src}")
        else:
            c = g.choice(BASE_META.get(src) or [f"u_{tag}_{i}"])
            stmts.append(f"INSERT INTO {tgt} SELECT {c} AS c_{tag}_{i} FROM {src}")
    accessors = g.sample(ACC_POOL, 3)
    return {"tag": tag, "script": stmts, "sep": "\n", "dialect": "tsql", "provider": provider, "faults": [], "silent": False,
            "cfg": {"TSQL_NO_SEMICOLON": True}, "accessors": accessors}


ZOO = [
    # dialect-specific statement forms over the shared universe (other extractors, multi-target inserts, paths ...)
    ("sparksql", "INSERT INTO {t} TABLE {s}"), ("mysql", "INSERT INTO {t} TABLE {s}"),
    ("snowflake", "INSERT ALL INTO {t} INTO {u} SELECT {c}, {c} FROM {s}"), ("oracle", "INSERT ALL INTO {t} INTO {u} SELECT {c} FROM {s}"),
    ("sparksql", "INSERT OVERWRITE TABLE {t} SELECT * FROM {s}"), ("hive", "INSERT OVERWRITE TABLE {t} SELECT {c} AS c_{tag}_z FROM {s}"),
    ("postgres", "SELECT {c} AS c_{tag}_p INTO {t} FROM {s}"), ("tsql", "SELECT {c} AS c_{tag}_q INTO {t} FROM {s}"),
    ("bigquery", "MERGE {t} tg USING {s} sr ON tg.k = sr.{c} WHEN MATCHED THEN UPDATE SET v = sr.{c}"),
    ("snowflake", "CREATE TABLE {t} CLONE {s}"), ("redshift", "COPY {t} FROM 's3://bucket/{tag}' IAM_ROLE 'r'"),
    ("databricks", "INSERT INTO {t} SELECT * FROM {s}"), ("hive", "ALTER TABLE {t} EXCHANGE PARTITION (p='1') WITH TABLE {u}"),
    ("snowflake", "ALTER TABLE {t} SWAP WITH {u}"), ("mysql", "RENAME TABLE {t} TO {u}"), ("sparksql", "CACHE TABLE {s}"),
    ("vertica", "SELECT swap_partitions_between_tables('{s}', 'a', 'b', '{t}')"),
]


def gen_zoo_run(g, tag, provider):
    dialect = g.choice(sorted({d for d, _ in ZOO}))
    forms = [f for d, f in ZOO if d == dialect]
    tables = sorted(BASE_META) + UNIVERSE
    stmts = []
    for _ in range(g.choice([1, 2, 3])):
        s_ = g.choice(tables)
        t_, u_ = g.sample([x for x in tables if x != s_], 2)
        c_ = g.choice(BASE_META.get(s_) or [f"u_{tag}"])
        stmts.append(g.choice(forms).format(t=t_, u=u_, s=s_, c=c_, tag=tag))
    if g.random() < 0.5:
        src = g.choice(tables)
        stmts.append(f"INSERT INTO {g.choice(UNIVERSE)} SELECT * FROM {src}")
    return {"tag": tag, "script": stmts, "dialect": dialect, "provider": provider, "faults": [], "silent": False,
            "accessors": g.sample(ACC_POOL, 3)}


def gen_run(g, tag, provider, allow_faults=True, legacy_p=0.5, special=True):
    if special and g.random() < 0.1:
        return gen_tsql_run(g, tag, provider)
    if special and g.random() < 0.12:
        return gen_zoo_run(g, tag, provider)
    dialect = "non-validating" if g.random() < legacy_p else "ansi"
    sg = ScriptGen(g, tag)
    script = sg.script(g.choice([2, 3, 3, 4, 5]))
    faults = []
    silent = False
    if special and dialect == "ansi" and g.random() < 0.08:
        # silent mode: an unsupported statement is skipped with a warning instead of failing the run
        script.insert(g.randrange(len(script) + 1), BAD_UNSUPPORTED)
        silent = True
        allow_faults = False
    if allow_faults:
        r = g.random()
        if r < 0.18:
            k = g.randrange(len(script) + 1)
            bad = BAD_UNPARSABLE if (dialect != "ansi" or g.random() < 0.5) else BAD_UNSUPPORTED
            script.insert(k, bad)
            faults.append({"kind": "stmt_fail", "k": k})
        elif r < 0.34:
            faults.append({"kind": "provider_raise", "j": g.choice([0, 0, 1, 1, 2, 3, 4, 6]), "exc": g.choice(["RuntimeError", "MetaDataProviderException", "KeyError"])})
        elif r < 0.46:
            faults.append({"kind": "tap_raise", "event": g.choice(["stmt.begin", "stmt.analyzed", "stmt.end", "stmt.end", "run.assembled"]),
                           "index": g.choice([-1, 0, 1, 2]), "exc": "InjectedFault"})
        elif r < 0.58:
            # fires only in worlds that trace runner.py at line level (2/3 of them)
            faults.append({"kind": "line_raise", "k": g.randrange(0, 60)})
    n_acc = g.choice([2, 3, 4])
    accessors = g.sample(ACC_POOL, n_acc)
    if g.random() < 0.3:
        accessors.append(g.choice(accessors))
    return {"tag": tag, "script": script, "dialect": dialect, "provider": provider, "faults": faults, "silent": silent, "accessors": accessors}


_CORPUS = None


def corpus_items():
    global _CORPUS
    if _CORPUS is None:
        from ..util import VERIF_DIR

        with open(os.path.join(VERIF_DIR, "corpus", "corpus.json")) as f:
            _CORPUS = [it for it in json.load(f) if not it.get("cfg")]
    return _CORPUS


def gen(seed, tier="quick") -> dict:
    g = stream(seed, "gen")
    faulty = g.random() < 0.65
    nthreads = g.choice([1, 2, 2, 3, 3, 4])
    providers = []
    threads = []
    rid = 0
    shared_texts = []
    for ti in range(nthreads):
        own = []
        for _ in range(g.choice([1, 1, 2])):
            kind = "sim" if g.random() < 0.7 else "dummy"
            if tier == "thorough" and g.random() < 0.12:
                kind = "sqlalchemy"  # the real SQLAlchemy provider over scratch sqlite files
            meta = dict(BASE_META) if g.random() < 0.75 else ({k: v for k, v in BASE_META.items() if g.random() < 0.5} or {"b.x1": BASE_META["b.x1"]})
            providers.append({"kind": kind, "meta": meta})
            own.append(len(providers) - 1)
        runs = []
        for _ in range(g.choice([1, 2, 2, 3])):
            rid += 1
            if g.random() < 0.1:
                # a statement (or script) the repository's own tests use, with the metadata the test gives it,
                # on a provider of its own - real inputs under histories and schedules
                it = g.choice(corpus_items())
                providers.append({"kind": "dummy", "meta": dict(it["meta"] or {})})
                runs.append({"tag": f"corpus{rid}", "script": [it["sql"]], "dialect": it["dialect"], "provider": len(providers) - 1, "faults": [],
                             "silent": bool(it.get("silent")), "accessors": g.sample(ACC_POOL, 3)})
                continue
            prov = g.choice(own) if g.random() < 0.75 else None
            if shared_texts and g.random() < 0.2:
                # the same script text under another provider / thread
                base = json.loads(json.dumps(g.choice(shared_texts)))
                base["provider"] = prov
                base["tag"] = base["tag"] + f"x{rid}"
                if not faulty:
                    base["faults"] = []
                runs.append(base)
                continue
            # name collisions between runs: caches keyed by printed names / statement text only show when two
            # different scripts of one process talk about the same names
            tag = f"r{rid}" if (rid == 1 or g.random() < 0.6) else f"r{g.randrange(1, rid)}"
            run = gen_run(g, tag, prov, allow_faults=faulty)
            run["tag"] = f"{tag}#{rid}" if tag != f"r{rid}" else tag
            if not any(f["kind"] == "stmt_fail" for f in run["faults"]):
                shared_texts.append({k: v for k, v in run.items()})
            runs.append(run)
        threads.append({"runs": runs})
    if g.random() < 0.15:
        # the same statement text under T-SQL split mode and under another dialect in which it reads differently (or not
        # at all), in one process: run A is a tsql no-semicolon script containing the text - maybe failing before it
        # gets to it -, run B is the text alone under the other dialect, later in the same thread or in another one
        gx = stream(seed, "gen-xdialect")
        s_ = gx.choice(sorted(BASE_META))
        c_, c2_ = gx.choice(BASE_META[s_]), gx.choice(BASE_META[s_])
        t_ = gx.choice(UNIVERSE)
        text, others = gx.choice([
            (f"SELECT {c_} AS c_x, {c2_} AS c_y INTO {t_} FROM {s_}", ["mysql", "mariadb"]),
            (f'INSERT INTO {t_} SELECT "{c_}" AS c_q FROM {s_}', ["mysql", "sparksql", "bigquery", "hive"]),
            (f"INSERT INTO {t_} SELECT [{c_}] AS c_b FROM {s_}", ["ansi", "mysql", "postgres"]),
            (f"SELECT TOP 5 {c_} AS c_t INTO {t_} FROM {s_}", ["ansi", "postgres", "redshift"]),
        ])
        a_script = [f"INSERT INTO {gx.choice(UNIVERSE)} SELECT * FROM {gx.choice(sorted(BASE_META))}"]
        a_faults = []
        r_ = gx.random()
        if r_ < 0.45:
            a_script.append(BAD_UNSUPPORTED)
            a_faults.append({"kind": "stmt_fail", "k": 1})
        elif r_ < 0.6:
            a_faults.append({"kind": "tap_raise", "event": "stmt.end", "index": 0, "exc": "InjectedFault"})
        a_script.append(text)
        if gx.random() < 0.4:
            a_script.append(f"INSERT INTO {gx.choice(UNIVERSE)} SELECT * FROM {t_}")
        ta = gx.randrange(len(threads))
        tb = ta if gx.random() < 0.5 else gx.randrange(len(threads))
        rid += 1
        run_a = {"tag": f"xa{rid}", "script": a_script, "sep": "\n", "dialect": "tsql", "provider": None, "faults": a_faults if faulty or a_faults[:1] and a_faults[0]["kind"] == "stmt_fail" else [],
                 "silent": False, "cfg": {"TSQL_NO_SEMICOLON": True}, "accessors": gx.sample(ACC_POOL, 3)}
        if not run_a["faults"] and BAD_UNSUPPORTED in a_script:
            run_a["faults"] = [{"kind": "stmt_fail", "k": 1}]
        rid += 1
        run_b = {"tag": f"xb{rid}", "script": [text], "dialect": gx.choice(others), "provider": None, "faults": [], "silent": False, "accessors": gx.sample(ACC_POOL, 3), "xdialect": True}
        pos = gx.randrange(len(threads[ta]["runs"]) + 1)
        threads[ta]["runs"].insert(pos, run_a)
        if tb == ta:
            threads[tb]["runs"].insert(gx.randrange(pos + 1, len(threads[tb]["runs"]) + 1), run_b)
        else:
            threads[tb]["runs"].append(run_b)
    projects = []
    if g.random() < 0.12:
        # two project directories; some runs of this world are templated scripts analysed with file_path pointing
        # into one of them - byte-identical text, different jinja context
        tabs = sorted(BASE_META) + UNIVERSE
        for _ in range(2):
            projects.append({"src_tbl": g.choice(sorted(BASE_META)), "tgt_tbl": g.choice(UNIVERSE), "other_tbl": g.choice(tabs)})
        tscript = ["INSERT INTO {{ tgt_tbl }} SELECT * FROM {{ src_tbl }}", "INSERT INTO s.t4 SELECT * FROM {{ tgt_tbl }} JOIN {{ other_tbl }} ON 1 = 1"][: g.choice([1, 2])]
        for ti, th in enumerate(threads):
            for k in range(g.choice([1, 2])):
                rid += 1
                own_idx = [i for i, _p in enumerate(providers)]
                run = {"tag": f"proj{rid}", "script": list(tscript), "dialect": "ansi", "provider": g.choice(own_idx[: 1 + ti]) if False else None,
                       "faults": [], "silent": False, "accessors": g.sample(ACC_POOL, 3), "project": g.randrange(2)}
                # own provider of this thread, if it has one
                th_own = [r["provider"] for r in th["runs"] if r.get("provider") is not None]
                if th_own and g.random() < 0.7:
                    run["provider"] = th_own[0]
                th["runs"].insert(g.randrange(len(th["runs"]) + 1), run)
    line_choices = [[], ["runner", "metadata_provider"], ["runner", "metadata_provider"], ["runner", "metadata_provider", "analyzer"], ["analyzer", "legacy_analyzer"],
                    ["runner", "helpers"]]
    gw = stream(seed, "gen-werror")
    werror = gw.random() < 0.1
    if werror:
        # strict-warnings world; scalar sub-queries in select lists (analysed by a nested runner that warns) in two runs
        for k in range(2):
            rid += 1
            s1_, s2_ = gw.sample(sorted(BASE_META), 2)
            stmt = f"INSERT INTO {gw.choice(UNIVERSE)} SELECT (SELECT max({gw.choice(BASE_META[s1_])}) FROM {s1_}) AS m_{rid}, {gw.choice(BASE_META[s2_])} FROM {s2_}"
            script = [stmt] + ([f"INSERT INTO {gw.choice(UNIVERSE)} SELECT * FROM {s1_}"] if gw.random() < 0.5 else [])
            if gw.random() < 0.3:
                script.append(BAD_UNSUPPORTED)
            run = {"tag": f"sq{rid}", "script": script, "dialect": "ansi", "provider": None, "faults": [], "silent": BAD_UNSUPPORTED in script, "accessors": gw.sample(ACC_POOL, 3),
                   "scalar_subquery": True}
            th = threads[k % len(threads)]
            th["runs"].insert(gw.randrange(len(th["runs"]) + 1), run)
        if gw.random() < 0.7:
            # T-SQL scripts without semicolons, in split mode (analysed whole) and in plain mode (only the first statement
            # is analysed and a SyntaxWarning - here an error - says so), in different threads where there are several
            for k in range(gw.choice([1, 2])):
                rid += 1
                run = gen_tsql_run(gw, f"ts{rid}", None)
                th = threads[k % len(threads)]
                th["runs"].insert(gw.randrange(len(th["runs"]) + 1), run)
            for k in range(gw.choice([1, 2])):
                rid += 1
                run = gen_tsql_run(gw, f"tp{rid}", None)
                run.pop("cfg")
                run["tsql_plain"] = True
                th = threads[(k + 1) % len(threads)]
                th["runs"].insert(gw.randrange(len(th["runs"]) + 1), run)
        if gw.random() < 0.6:
            rid += 1
            threads[gw.randrange(len(threads))]["runs"].append({"tag": f"legacy{rid}", "script": [f"INSERT INTO {gw.choice(UNIVERSE)} SELECT * FROM {gw.choice(sorted(BASE_META))}"],
                                                              "dialect": "non-validating", "provider": None, "faults": [], "silent": False, "accessors": gw.sample(ACC_POOL, 2)})
    go = stream(seed, "gen-oversized")
    if go.random() < 0.12:
        # a statement beyond the guards of the statement splitter (more than 100 nested parentheses, or more than 10,000
        # tokens on one level): such a script is refused - in every dialect, alone or in company; the other runs of
        # the world are ordinary ones. Statement-splitting helpers become yield points in these worlds.
        line_choices = [["runner", "helpers"], ["helpers"], ["runner", "helpers", "legacy_analyzer"]]
        for _ in range(go.choice([1, 1, 2])):
            rid += 1
            src = go.choice(sorted(BASE_META))
            c = go.choice(BASE_META[src])
            if go.random() < 0.7:
                big = f"INSERT INTO {go.choice(UNIVERSE)} SELECT " + "(" * 104 + c + ")" * 104 + f" AS c_big FROM {src}"
            else:
                big = f"INSERT INTO {go.choice(UNIVERSE)} SELECT {c} FROM {src} WHERE {c} IN (" + ", ".join(str(i) for i in range(3400)) + ")"
            script = [big] if go.random() < 0.5 else [f"INSERT INTO {go.choice(UNIVERSE)} SELECT * FROM {src}", big]
            run = {"tag": f"big{rid}", "script": script, "dialect": go.choice(["non-validating", "non-validating", "ansi"]), "provider": None, "faults": [], "silent": False,
                   "accessors": go.sample(ACC_POOL, 2), "oversized": True}
            th = go.choice(threads)
            th["runs"].insert(go.randrange(len(th["runs"]) + 1), run)
    ge = stream(seed, "gen-entry")
    if ge.random() < 0.15:
        # entry points other than the Python API: requests to the bundled web application (one provider object for the
        # whole process: issued by one thread, one after the other) and command-line invocations (a provider per call)
        srv_thread = ge.randrange(len(threads))
        for k in range(ge.choice([0, 1, 2, 2, 3])):
            rid += 1
            tag = f"r{ge.randrange(1, rid)}" if ge.random() < 0.5 else f"r{rid}"
            base = gen_run(ge, tag, None, allow_faults=faulty, special=False)
            prev = [r for r in threads[srv_thread]["runs"] if r.get("entry") == "server"]
            if prev and ge.random() < 0.3:  # the text of an earlier request again, under the other parser
                base["script"] = list(ge.choice(prev)["script"])
                base["dialect"] = ge.choice(["ansi", "non-validating", "mysql"])
                base["faults"] = [f for f in base["faults"] if f["kind"] != "stmt_fail"]
            run = {"tag": f"srv{rid}", "script": base["script"], "dialect": base["dialect"], "provider": None, "faults": base["faults"], "silent": False,
                   "accessors": ["server"], "entry": "server"}
            th = threads[srv_thread]
            th["runs"].insert(ge.randrange(len(th["runs"]) + 1), run)
        for k in range(ge.choice([1, 1, 2, 3])):
            rid += 1
            tag = f"r{ge.randrange(1, rid)}" if ge.random() < 0.5 else f"r{rid}"
            base = gen_run(ge, tag, None, allow_faults=faulty, special=False)
            run = {"tag": f"cli{rid}", "script": base["script"], "dialect": base["dialect"], "provider": None, "faults": base["faults"], "silent": False,
                   "accessors": ["cli"], "entry": "cli", "level": ge.choice(["table", "column", "column"]), "verbose": ge.random() < 0.3, "cli_file": ge.random() < 0.4}
            th = ge.choice(threads)
            th["runs"].insert(ge.randrange(len(th["runs"]) + 1), run)
    if tier == "thorough":
        line_choices.append(["runner", "metadata_provider", "holders"])
    return {
        "seed": seed,
        "providers": providers,
        "projects": projects,
        "threads": threads,
        "sched": g.choice(["random", "sticky", "sticky50", "pct1", "pct2", "pct3", "retbias"]),
        "line": g.choice(line_choices) if not werror else gw.choice([["runner", "metadata_provider"], ["runner", "analyzer"], ["analyzer"]]),
        "werror": werror,
        "gran": g.choice(["line", "line", "line", "instr"]),
        "horizon": 600,
    }


FIXED_WORKLOAD_SEEDS = [101, 102, 103, 104, 105, 106, 107, 108]


def sweep_specs() -> list[dict]:
    """Full fault sweep over a fixed workload: for every script, a bad statement at every
    position k, a provider failure at every lookup index j < 10, a tap failure at every
    statement boundary, an exception at each of the first 36 source lines executed by
    LineageRunner._eval; each followed by a clean run on the same provider."""
    out = []
    for ws in FIXED_WORKLOAD_SEEDS:
        g = stream(ws, "c12-sweep")
        base = gen_run(g, f"w{ws}", 0, allow_faults=False, legacy_p=0.5, special=False)
        follow = gen_run(g, f"f{ws}", 0, allow_faults=False, legacy_p=0.5, special=False)
        n = len(base["script"])
        variants = []
        for k in range(n + 1):
            for bad in (BAD_UNPARSABLE, BAD_UNSUPPORTED):
                if bad == BAD_UNSUPPORTED and base["dialect"] != "ansi":
                    continue
                v = json.loads(json.dumps(base))
                v["script"].insert(k, bad)
                v["faults"] = [{"kind": "stmt_fail", "k": k}]
                variants.append(v)
        for j in range(10):
            v = json.loads(json.dumps(base))
            v["faults"] = [{"kind": "provider_raise", "j": j, "exc": ["RuntimeError", "MetaDataProviderException", "KeyError"][j % 3]}]
            variants.append(v)
        for ev in ("stmt.begin", "stmt.analyzed", "stmt.end"):
            for idx in range(n):
                v = json.loads(json.dumps(base))
                v["faults"] = [{"kind": "tap_raise", "event": ev, "index": idx, "exc": "InjectedFault"}]
                variants.append(v)
        v = json.loads(json.dumps(base))
        v["faults"] = [{"kind": "tap_raise", "event": "run.assembled", "index": -1, "exc": "InjectedFault"}]
        variants.append(v)
        nplain = len(variants)
        for k in range(0, 36):
            v = json.loads(json.dumps(base))
            v["faults"] = [{"kind": "line_raise", "k": k}]
            variants.append(v)
        for vi, v in enumerate(variants):
            v["tag"] = f"w{ws}v{vi}"
            lr = vi >= nplain
            for kind in (("sim",) if lr else ("sim", "dummy")):
                out.append({
                    "seed": ws * 1000 + vi,
                    "providers": [{"kind": kind, "meta": dict(BASE_META)}],
                    "threads": [{"runs": [v, json.loads(json.dumps(follow)), json.loads(json.dumps(base))]}],
                    "sched": "sticky",
                    "line": ["runner"] if lr else [],
                    "horizon": 100,
                    "sweep": True,
                })
    return out


def plan(seed: int, tier: str) -> list[dict]:
    master = stream(seed, "c12-plan")
    units = []
    sw = sweep_specs()
    if tier == "quick":
        sw = [s for i, s in enumerate(sw)]
    for i in range(0, len(sw), 6):
        units.append({"key": {"hash_seed": 1 + (i // 6) % 4}, "specs": sw[i:i + 6], "wall_s": 240.0})
    nsw = {"quick": 24, "thorough": 900}[tier]
    for b in range(nsw // 3):
        units.append({"key": {"hash_seed": b % 4}, "specs": [gen_sweep(master.randrange(2 ** 48)) for _ in range(3)], "wall_s": 280.0})
    nruns = {"quick": 660, "thorough": 16000}[tier]
    block = 3
    for b in range(nruns // block):
        hs = master.randrange(8)
        specs = [gen(master.randrange(2 ** 48), tier) for _ in range(block)]
        units.append({"key": {"hash_seed": hs}, "specs": specs, "wall_s": 240.0})
    return units


# ---------------------------------------------------------------------------
# shrinking


def shrink_candidates(spec: dict) -> list[dict]:
    out = []
    cp = lambda: json.loads(json.dumps(spec))
    nt = len(spec["threads"])
    if nt > 1:
        for i in range(nt):
            s = cp()
            del s["threads"][i]
            if s.get("schedule") is not None:
                s["schedule"] = [(-1 if c == i else (c - 1 if c > i else c)) for c in s["schedule"]]
            out.append(s)
    if spec.get("line"):
        s = cp()
        s["line"] = []
        s["schedule"] = []
        out.append(s)
    if spec.get("schedule"):
        s = cp()
        s["schedule"] = []
        out.append(s)
    for i, th in enumerate(spec["threads"]):
        if len(th["runs"]) > 1 or nt > 1:
            for j in range(len(th["runs"])):
                s = cp()
                del s["threads"][i]["runs"][j]
                if s["threads"][i]["runs"] or nt > 1:
                    out.append(s)
    for i, th in enumerate(spec["threads"]):
        for j, run in enumerate(th["runs"]):
            if run.get("faults"):
                nonstmt = [f for f in run["faults"] if f["kind"] != "stmt_fail"]
                if nonstmt:
                    s = cp()
                    s["threads"][i]["runs"][j]["faults"] = [f for f in run["faults"] if f["kind"] == "stmt_fail"]
                    out.append(s)
            if len(run["script"]) > 1:
                for k in range(len(run["script"])):
                    if run["script"][k] in (BAD_UNPARSABLE, BAD_UNSUPPORTED):
                        continue
                    s = cp()
                    del s["threads"][i]["runs"][j]["script"][k]
                    out.append(s)
            if len(run["accessors"]) > 1:
                for k in range(len(run["accessors"])):
                    s = cp()
                    del s["threads"][i]["runs"][j]["accessors"][k]
                    out.append(s)
    sch = spec.get("schedule")
    if sch:
        L = len(sch)
        for cut in (L // 2, (3 * L) // 4):
            if 0 < cut < L:
                s = cp()
                s["schedule"] = sch[:cut]
                out.append(s)
    return out
