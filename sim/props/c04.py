"""C04 -- column lineage chains across statements.

History clause + collaborator (DESIGN.md 4.5): state is carried from statement
to statement inside the metadata provider's session (register -> lookup ->
deregister).  Scripts are generated statement by statement; the guarded taps
report, per statement, its own column pairs (statement tap) and what was
registered / looked up (session tap).  Oracles:

  (1) session model: what each creating statement registers, what lookups of
      session tables answer, emptiness after the run;
  (2) end to end: the script's column paths equal the composition (joined on
      printed column identity) of the per-statement pairs the taps reported;
      unresolved unqualified columns are judged only where the statement
      determines them, and are never attributed outside their candidate set;
  (3) with a provider in use, SELECT * from a table created earlier expands to
      exactly the registered columns.
"""
from __future__ import annotations

import json

from ..gen_sql import BASE_META, UNIVERSE, ScriptGen
from ..util import digest, short, stream

ID = "C04"
PRELOAD = ["sqllineage.runner", "sim.props.c04"]
BUDGET_S = {"quick": 240.0, "thorough": 1500.0}

DESCRIPTION = {
    "rule": (
        "seeded scripts of 2-5 statements (CTAS / INSERT / INSERT with column list / CREATE VIEW / bare SELECT) over tables s.t1..s.t4 and "
        "base tables b.x1..b.x3 in which later statements read earlier targets through columns, aliases, expressions, *, t.* and "
        "unqualified columns in a 2-relation scope, plus three fixed shapes (a table re-created by CTAS / VIEW between verbatim repeated "
        "readers; a known table written again through a permuted column list and positionally; a table rewritten from itself directly / through "
        "a derived table / CTE with the exact expected path set); column names are unique per defining statement; provider in {none, SimProvider, "
        "DummyMetaDataProvider} knowing a seeded subset of the base tables; both analyzers. Per statement the taps report its column "
        "pairs and the session traffic; the script's paths must equal the composition of the per-statement pairs and the session "
        "must follow the model. Distinct = distinct (script, provider); non-trivial iff a later statement consumed a column of an "
        "earlier target, a wildcard was expanded from session metadata, or an unqualified column was resolved against it."
    ),
    "real_code": ["sqllineage/runner.py (_eval, session registration)", "sqllineage/core/holders.py (composition, late resolution, wildcard expansion)",
                  "sqllineage/core/metadata_provider.py (session)", "both analyzers", "DummyMetaDataProvider"],
    "stubs": ["SimProvider._get_table_columns (dict-backed)", "guarded statement/session taps of /repo are the observation points"],
    "assumptions": [
        "where a statement leaves an unqualified column with several candidate owners, the comparison is exact only if a provider is in use and exactly one candidate is known to define the column; otherwise only containment in the candidate set is required (the statement does not say more)",
        "scripts whose expected column graph has a cycle are skipped (no sources/sinks to enumerate paths from) and counted",
        "registered column lists are compared as sets",
        "a write that does not define its target must not remove columns from what the session knows about it: judged on every script except at the sites of the open known finding (UPDATE ... FROM / MERGE under every parser, INSERT into a session-known table under the legacy parser), which are counted and judged through three pinned inputs",
        "deterministic in (script, metadata): the fault dimension is small - the hash seed, and in 30% of the runs an earlier analysis on the same provider object that was aborted by a bad statement after registering tables; provider stalls/failures and thread interleavings are decided under C12",
    ],
    "required_probes": {
        "quick": ["chain_consumed", "wildcard_from_session", "unqualified_resolved_by_session", "end_at_intermediate", "session_lookup_hit", "paths_compared", "after_aborted_run", "recreated_by_ctas_or_view", "self_rewrite_paths_checked", "known_table_written_again", "scalar_subquery_between_definition_and_wildcard_reader", "nondefining_write_keeps_columns"],
        "thorough": ["chain_consumed", "wildcard_from_session", "unqualified_resolved_by_session", "end_at_intermediate", "session_lookup_hit", "paths_compared"],
    },
}

CREATING = ("ctas", "insert", "view", "insert_cols")


def _write_site(stmt: str):
    """Kind of a statement that writes a table without defining it (from the statement text only)."""
    head = stmt.lstrip().upper()
    if head.startswith("UPDATE"):
        return "update"
    if head.startswith("MERGE"):
        return "merge"
    if head.startswith("INSERT"):
        return "insert"
    return None


def _known_narrowing_site(site: str, dialect: str) -> bool:
    # open known finding (reproduced on the unchanged tree, see known_findings.json): UPDATE ... FROM and MERGE under
    # every parser, INSERT into a session-known table under the legacy parser only (the sqlfluff INSERT path keeps the
    # known columns and is judged)
    return site in ("update", "merge") or dialect == "non-validating"


def _make_provider(ps):
    if ps is None:
        return None
    if ps["kind"] == "dummy":
        from sqllineage.core.metadata.dummy import DummyMetaDataProvider

        return DummyMetaDataProvider({k: list(v) for k, v in ps["meta"].items()})
    from sqllineage.core.metadata_provider import MetaDataProvider

    class SimProvider(MetaDataProvider):
        def __init__(self, meta):
            super().__init__()
            self.meta = meta

        def _get_table_columns(self, schema, table, **kwargs):
            return list(self.meta.get(f"{schema}.{table}", []))

    return SimProvider({k: list(v) for k, v in ps["meta"].items()})


def all_simple_paths(edges):
    succ = {}
    nodes = set()
    indeg = {}
    for a, b in edges:
        succ.setdefault(a, []).append(b)
        nodes.add(a)
        nodes.add(b)
        indeg[b] = indeg.get(b, 0) + 1
    # cycle check (Kahn)
    deg = {n: indeg.get(n, 0) for n in nodes}
    queue = [n for n in nodes if deg[n] == 0]
    seen = 0
    while queue:
        n = queue.pop()
        seen += 1
        for m in succ.get(n, ()):
            deg[m] -= 1
            if deg[m] == 0:
                queue.append(m)
    if seen != len(nodes):
        return None
    out = set()
    sources = [n for n in nodes if indeg.get(n, 0) == 0]

    def walk(n, path):
        nx = succ.get(n)
        if not nx:
            out.add(tuple(path))
            return
        for m in nx:
            walk(m, path + [m])

    for s in sources:
        walk(s, [s])
    return out


def run_one(spec: dict) -> dict:
    from sqllineage.core.models import Table
    from sqllineage.runner import LineageRunner
    from sqllineage.utils import verif as tapmod

    ps = spec.get("provider")
    prov = _make_provider(ps)
    in_use = prov is not None and bool(prov)
    base = dict(ps["meta"]) if ps else {}
    script = spec["script"]
    annot = spec["annot"]
    probes = {}
    events = []
    stmt_pairs = []  # per statement: list of (src, tgt, candidates|None)
    cur = {"i": -1}
    viol = None

    def probe(n):
        probes[n] = probes.get(n, 0) + 1

    def tap(event, payload):
        if event.startswith(("stmt.", "run.")) and payload.get("runner") is not cur.get("runner"):
            return  # a nested runner (the library analyses expression sub-queries with one): not a statement of the script
        if event == "stmt.begin":
            cur["i"] = payload["index"]
        elif event == "stmt.analyzed":
            h = payload["holder"]
            pairs = []
            for path in h.get_column_lineage(exclude_subquery_columns=True):
                s, t = path[0], path[-1]
                cands = None
                if s.parent is None and len(s.parent_candidates) > 1:
                    cands = [[type(p).__name__, str(p)] for p in s.parent_candidates]
                pairs.append([str(s), str(t), cands, s.raw_name])
            stmt_pairs.append(sorted(pairs, key=lambda x: json.dumps(x)))
        elif event == "session.register":
            events.append(["register", cur["i"], payload["table"], list(payload["columns"])])
        elif event == "session.lookup":
            events.append(["lookup", cur["i"], payload["table"], bool(payload["hit"]), list(payload["columns"])])
        elif event == "session.deregister":
            events.append(["deregister", cur["i"]])
        elif event == "stmt.end":
            cur["i"] = payload["index"] + 0.5  # after statement i (and its registration): late resolution looks up here

    kwargs = {"dialect": spec["dialect"]}
    if prov is not None:
        kwargs["metadata_provider"] = prov
    # history: an earlier run on the SAME provider object that was aborted part-way (a bad statement after it had
    # taught the session something); what this script's statements then know must not depend on it
    if spec.get("aborted_before"):
        try:
            LineageRunner(";\n".join(spec["aborted_before"]), **kwargs).get_column_lineage()
        except Exception:
            probe("after_aborted_run")
    tapmod.set_tap(tap)
    import contextlib

    from sqllineage.config import SQLLineageConfig

    scope = SQLLineageConfig(**spec["cfg"]) if spec.get("cfg") else contextlib.nullcontext()
    if spec.get("cfg"):
        probe("lateral_alias_config")
    if spec.get("shape") == "scalar_subquery":
        probe("scalar_subquery_between_definition_and_wildcard_reader")
    try:
        with scope:
            runner = LineageRunner(";\n".join(script) + (";" if spec.get("trailing_semicolon") else ""), **kwargs)
            cur["runner"] = runner
            observed = {tuple(str(c) for c in p) for p in runner.get_column_lineage(exclude_subquery_columns=True)}
        err = None
    except Exception as e:
        observed, err = None, e
    finally:
        tapmod.set_tap(None)

    def done(v=None, skip=None):
        rr = {
            "verdict": "violation" if v else "ok",
            "digest": short([script, ps, spec["dialect"]], 24),
            "steps": len(script),
            "faults": {},
            "probes": probes,
            "states": [short(session_states, 12)] if session_states else [],
            "nontrivial": any(k in probes for k in ("chain_consumed", "wildcard_from_session", "unqualified_resolved_by_session")),
            "log_digest": digest([script, events, stmt_pairs, sorted(observed) if observed is not None else None]),
            "extra": {("skipped_" + skip) if skip else "judged": 1},
        }
        if v:
            rr["violation"] = v
            rr["spec"] = spec
        return rr

    session_states = []
    if err is not None:
        return done({"class": "analysis_raised", "message": f"{type(err).__name__}: {err} for script {script} ({spec['dialect']})"})
    if len(stmt_pairs) != len(script):
        return done({"class": "harness_tap_count", "message": f"{len(stmt_pairs)} statement taps for {len(script)} statements"})

    # ---- oracle (1): session model
    model = {}
    regs_by_stmt = {}
    for ev in events:
        if ev[0] == "register":
            regs_by_stmt.setdefault(ev[1], []).append(ev)
    ev_i = 0
    for i, a in enumerate(annot):
        # lookups that happened while statement i was analysed are answered from the model as it stood
        for ev in [e for e in events if e[0] == "lookup" and e[1] == i]:
            _, _, table, hit, cols = ev
            probe("lookup_during_statement")
            if table in model:
                probe("session_lookup_hit")
                if not hit or sorted(cols) != sorted(model[table]):
                    viol = viol or {"class": "session_lookup_wrong", "message": f"statement {i} looked up {table}: hit={hit} columns={cols}; the session model holds {model[table]} (script {script})"}
            elif hit:
                viol = viol or {"class": "session_lookup_wrong", "message": f"statement {i} looked up {table}: answered from the session, but nothing registered it (script {script})"}
        regs = regs_by_stmt.get(i, [])
        if len(regs) > 1:
            viol = viol or {"class": "session_register_wrong", "message": f"statement {i} registered {len(regs)} times: {regs}"}
        # judged for the statement that first defines the table in this script (re-definition of a table whose
        # columns are already known - earlier in the script or to the provider - is not described by the property)
        first_definition = (a["target"] not in model and (a["target"] not in base or a["kind"] in ("ctas", "view"))) or \
            (spec.get("shape") == "recreate" and a["kind"] in ("ctas", "view"))
        if a["target"] in model and first_definition:
            probe("recreated_by_ctas_or_view")
        if first_definition and a["target"] in base:
            probe("shadows_provider_table")
        # (an explicit column list combined with a wildcard select is a single-statement question - how one
        # statement maps * onto its column list is C02's subject - and is not judged here)
        if a["kind"] in CREATING and a["out"] is not None and (not a["wild"] or in_use) and first_definition and not (a["kind"] == "insert_cols" and (a["wild"] or spec["dialect"] == "non-validating")):
            probe("first_definition_registered")
            want = sorted(a["out"])
            got = sorted(regs[0][3]) if regs else None
            tgt = regs[0][2] if regs else None
            if got != want or tgt != a["target"]:
                viol = viol or {"class": "session_register_wrong", "message": f"statement {i} `{script[i]}` defines {a['target']} with columns {want}; registered: {regs} (provider in use: {in_use})"}
        ko = (spec.get("keep_order") or {}).get(str(i))
        if ko and in_use and ko in model:
            # writing into a table the script already defined (explicit column list in another order / positional
            # insert) must leave what the session knows about it - names AND order - as it was
            probe("known_table_written_again")
            for r in regs:
                if r[2] == ko and list(r[3]) != list(model[ko]):
                    viol = viol or {"class": "session_column_order_changed", "message": f"statement {i} `{script[i]}` writes into {ko}, whose columns the session knew as {model[ko]}; "
                                    f"afterwards it registered {r[3]} (script {script})"}
        # a statement that does not (re-)define its target - UPDATE, MERGE, INSERT into a table the session already knows -
        # cannot take columns away from it: what the session knew about the table before must still be known afterwards
        # (otherwise a later SELECT * stops short of columns the table still has). Judged with a provider in use (only
        # then is the session consulted). Sites where the unchanged tree does narrow are an open known finding
        # (known_findings.json: C04-nondefining-write-narrows-session-*): there the pinned inputs are judged and
        # generated scripts only counted; every other site is judged on every script.
        site = _write_site(script[i])
        for r in regs:
            if in_use and site is not None and r[2] in model and not set(model[r[2]]) <= set(r[3]):
                probe("nondefining_write_narrows")
                if _known_narrowing_site(site, spec["dialect"]) and not spec.get("pinned"):
                    probe("known_finding_zone_nondefining_write_narrows")
                else:
                    viol = viol or {"class": "session_columns_narrowed", "site": site,
                                    "message": f"statement {i} `{script[i]}` ({site}, {spec['dialect']}) does not define {r[2]}, whose columns the session knew as {model[r[2]]}; "
                                               f"afterwards the session holds only {r[3]} (script {script})"}
            elif in_use and site is not None and r[2] in model:
                probe("nondefining_write_keeps_columns")
        for r in regs:
            model[r[2]] = list(r[3])
        session_states.append(sorted(model.items()))
        # lookups after statement i was registered (late resolution while the result is assembled)
        for ev in [e for e in events if e[0] == "lookup" and e[1] == i + 0.5]:
            _, _, table, hit, cols = ev
            probe("lookup_late")
            if table in model:
                probe("session_lookup_hit")
                if not hit or sorted(cols) != sorted(model[table]):
                    viol = viol or {"class": "session_lookup_wrong", "message": f"after statement {i}, lookup of {table}: hit={hit} columns={cols}; the session model holds {model[table]} (script {script})"}
            elif hit:
                viol = viol or {"class": "session_lookup_wrong", "message": f"after statement {i}, lookup of {table} answered from the session, but nothing registered it (script {script})"}
    if not events or events[-1][0] != "deregister":
        viol = viol or {"class": "session_not_closed", "message": f"last session event is {events[-1] if events else None}"}
    if prov is not None:
        for t in sorted(set(model) | set(UNIVERSE)):
            got = [str(c) for c in prov.get_table_columns(Table(t))]
            want = [f"{t}.{c}" for c in base.get(t, [])]
            if got != want:
                viol = viol or {"class": "session_leak", "message": f"after the run the provider answers {got} for {t}; a fresh one answers {want}"}
    if viol:
        return done(viol)

    # ---- input-shape filter for the pinned known finding C04-same-name-unresolved: two statements that each
    # leave an unqualified column of the SAME name with several candidate owners. Decided from the per-statement
    # facts only (never from the result); that shape is run as a pinned input instead (known_findings.json).
    if not spec.get("pinned"):
        names = {}
        for i, pairs in enumerate(stmt_pairs):
            for s_, t_, cands, raw in pairs:
                if cands is not None:
                    names.setdefault(raw, set()).add(i)
        if any(len(v) > 1 for v in names.values()):
            return done(skip="known_finding_shape_same_name_unresolved")

    # ---- the property's last clause, checked where the generator knows the answer: an unqualified column that a
    # table created earlier in the script defines is attributed to it (provider in use)
    if in_use:
        for si, pairs in (spec.get("expect_pairs") or {}).items():
            have = {(p_[0], p_[1]) for p_ in stmt_pairs[int(si)]}
            for a_, b_ in pairs:
                probe("expected_attribution_checked")
                if (a_, b_) not in have:
                    return done({"class": "unqualified_column_not_attributed_to_defining_table",
                                 "message": f"statement {si} `{script[int(si)]}`: {a_} -> {b_} expected (the table was created earlier in the script and defines that column); "
                                            f"the statement reported {sorted(have)} (script {script}, config {spec.get('cfg')})"})

    # ---- the generator knows the whole answer for this shape (independent of the library's per-statement paths)
    if spec.get("expect_paths") is not None:
        want_paths = {tuple(p) for p in spec["expect_paths"]}
        probe("self_rewrite_paths_checked")
        if any(len(p) == 2 and p[1].rsplit(".", 1)[0] in {a["target"] for a in annot} for p in want_paths):
            probe("self_rewritten_column_ends_at_intermediate")
        if observed != want_paths:
            return done({"class": "paths_differ_from_expected", "message": f"script {script} (provider {ps}, {spec['dialect']}): a table rewritten from itself keeps its lineage; expected paths "
                         f"missing from the result: {sorted(want_paths - observed)[:4]}; reported but not expected: {sorted(observed - want_paths)[:4]}"})

    # ---- oracle (3): SELECT * from a table created earlier expands to exactly the registered columns
    model = {}
    for i, a in enumerate(annot):
        if (in_use and a["kind"] in CREATING and a["star"] and len(a["srcs"]) == 1 and a["srcs"][0] in model and a["kind"] != "insert_cols"
                and ((a["target"] not in model and (a["target"] not in base or a["kind"] in ("ctas", "view")))
                     or (spec.get("shape") == "recreate" and a["kind"] in ("ctas", "view")))):
            T, W = a["srcs"][0], a["target"]
            want = sorted([f"{T}.{c}", f"{W}.{c}"] for c in model[T])
            got = sorted([p[0], p[1]] for p in stmt_pairs[i])
            probe("wildcard_from_session")
            if got != want:
                return done({"class": "wildcard_expansion_wrong", "message": f"statement {i} `{script[i]}` reads {T} whose session columns are {model[T]}: expected pairs {want}, the statement reported {got} (script {script})"})
        for r in regs_by_stmt.get(i, []):
            model[r[2]] = list(r[3])

    # ---- oracle (2): composition of per-statement pairs
    ever_defined = {}  # table -> set of column names ever defined (registered at any time, base metadata)
    for ev in events:
        if ev[0] == "register":
            ever_defined.setdefault(ev[2], set()).update(ev[3])
    for t, cols in base.items():
        ever_defined.setdefault(t, set()).update(cols)
    graph_defined = {}
    for pairs in stmt_pairs:
        for s, t, cands, raw in pairs:
            if "." in t:
                graph_defined.setdefault(t.rsplit(".", 1)[0], set()).add(t.rsplit(".", 1)[1])
            if cands is None and "." in s:
                graph_defined.setdefault(s.rsplit(".", 1)[0], set()).add(s.rsplit(".", 1)[1])
    registered_tables = {ev[2] for ev in events if ev[0] == "register"}
    exact = set()
    flex = set()
    has_flex = False
    for i, pairs in enumerate(stmt_pairs):
        for s, t, cands, raw in pairs:
            if cands is None:
                exact.add((s, t))
                continue
            tabs = [n for k, n in cands if k == "Table"]
            every = [n for _k, n in cands]
            defining = [n for n in every if raw in ever_defined.get(n, ()) or raw in graph_defined.get(n, ())]
            # a candidate whose definition changes during the script (a provider-known table the script re-creates):
            # resolution happens late, against the final session, so which definition counts is not determined
            redefined = [n for n in every if n in base and n in registered_tables]
            if in_use and len(defining) == 1 and len(every) == len(tabs) and not redefined:
                exact.add((f"{defining[0]}.{raw}", t))
                if defining[0] in {r[2] for e in regs_by_stmt.values() for r in e}:
                    probe("unqualified_resolved_by_session")
            else:
                has_flex = True
                flex.add((s, t))
                for n in every:
                    flex.add((f"{n}.{raw}", t))
    # a statement that rewrites a column from itself (t.c -> t.c) composes to nothing new when the column has another
    # producer; when it has none the graph is cyclic there and the script is skipped below like every cyclic one
    loops = {e for e in exact if e[0] == e[1]}
    if loops:
        produced = {t for s_, t in exact if s_ != t}
        exact -= {e for e in loops if e[0] in produced}
        probe("self_loop_in_statement_pairs")
    obs_edges = set()
    for p in observed:
        for a_, b_ in zip(p, p[1:]):
            obs_edges.add((a_, b_))
    # attribution never leaves the candidate set / the statement's own pairs
    stray = sorted(e for e in obs_edges if e not in exact and e not in flex)
    if stray:
        return done({"class": "attributed_outside_statement", "message": f"script-level column edges {stray[:4]} are reported, but no statement produced them "
                     f"(per-statement pairs: {stmt_pairs}; script {script}; provider {ps})"})
    written = {a["target"] for a in annot if a["target"]}
    if has_flex:
        missing = sorted(e for e in exact if e not in obs_edges)
        # an exact edge may legitimately be unreachable from a source/sink only in cyclic graphs; require presence otherwise
        # any admissible resolution that closes a cycle leaves no sources/sinks to enumerate from
        if all_simple_paths(exact | flex) is None:
            return done(skip="cyclic")
        if missing:
            return done({"class": "chain_broken", "message": f"per-statement pairs {missing[:4]} are missing from the script-level paths {sorted(observed)[:6]} (script {script}; provider {ps})"})
        return done(skip="unresolved_columns_present")
    paths = all_simple_paths(exact)
    if paths is None:
        return done(skip="cyclic")
    probe("paths_compared")
    if any(len(p) > 2 for p in paths):
        probe("chain_consumed")
    if any(p[-1].rsplit(".", 1)[0] in written and any(q[0] == p[-1] or p[-1] in q[1:-1] for q in paths if q is not p) is False for p in paths):
        pass
    # columns that are not consumed downstream end at the intermediate table
    inter = {t for t in written if any(p[-1].startswith(t + ".") for p in paths) and any(t + "." in c for p in paths for c in p[:-1])}
    if inter:
        probe("end_at_intermediate")
    if paths != observed:
        only_m = sorted(paths - observed)[:4]
        only_o = sorted(observed - paths)[:4]
        return done({"class": "paths_differ_from_composition", "message": f"script {script} (provider {ps}, {spec['dialect']}): composition of the per-statement pairs gives paths "
                     f"missing from the result: {only_m}; reported but not in the composition: {only_o}; per-statement pairs {stmt_pairs}"})
    return done()


def execute(arg):
    runs = []
    for i, spec in enumerate(arg["specs"]):
        r = run_one(spec)
        if i == 0 and r["verdict"] == "ok":
            r["sample"] = {"script": spec["script"], "provider": spec.get("provider"), "dialect": spec["dialect"]}
        runs.append(r)
    return {"runs": runs}


# ---------------------------------------------------------------------------


def gen_recreate(g, seed, ps, base, dialect) -> dict:
    """A table is created, read, RE-created by CTAS / CREATE VIEW with other columns, and read again - possibly by
    the very same statement text.  Re-creation by CTAS / CREATE VIEW defines the table anew (latest definition wins)."""
    tag = f"k{seed % 1000}"
    srcs = sorted(BASE_META)
    b1, b2 = g.sample(srcs, 2)
    T, V, W = g.sample(UNIVERSE, 3)
    A = [f"c_{tag}_a{i}" for i in range(g.choice([1, 2]))]
    B = [f"c_{tag}_b{i}" for i in range(g.choice([1, 2, 3]))]
    mk = lambda kind, t, cols, b: (f"CREATE {'TABLE' if kind == 'ctas' else 'VIEW'} {t} AS SELECT " + ", ".join(f"{g.choice(BASE_META[b])} AS {c}" for c in cols) + f" FROM {b}")
    k1, k3 = g.choice(["ctas", "view"]), g.choice(["ctas", "view"])
    s1 = mk(k1, T, A, b1)
    s3 = mk(k3, T, B, b2)
    reader_kind = g.choice(["view", "ctas", "insert"])
    star = g.random() < 0.7

    def reader(cols, tgt):
        sel = "*" if star else ", ".join(cols)
        head = {"view": f"CREATE VIEW {tgt} AS", "ctas": f"CREATE TABLE {tgt} AS", "insert": f"INSERT INTO {tgt}"}[reader_kind]
        return f"{head} SELECT {sel} FROM {T}"

    verbatim = star and g.random() < 0.6  # the same statement text twice (only possible when it does not name columns)
    s2 = reader(A, V)
    s4 = s2 if verbatim else reader(B, V if g.random() < 0.5 else W)
    tgt4 = V if verbatim else (V if f" {V} " in s4 + " " else W)
    in_use = ps is not None
    ann = lambda kind, t, out, srcs_, st: {"kind": kind, "target": t, "out": out, "srcs": srcs_, "star": st, "wild": st}
    rk = {"view": "view", "ctas": "ctas", "insert": "insert"}[reader_kind]
    annot = [ann(k1, T, list(A), [b1], False), ann(rk, V, list(A) if (not star or in_use) else None, [T], star),
             ann(k3, T, list(B), [b2], False), ann(rk, tgt4, list(B) if (not star or in_use) else None, [T], star)]
    script = [s1, s2, s3, s4]
    cfg = {}
    expect = None
    if len(B) >= 3 and g.random() < 0.5:
        # lateral column alias references switched on: a select item aliased to a column name that the RE-created
        # table defines, and a later item naming it unqualified - the table's own column must win
        cfg = {"LATERAL_COLUMN_ALIAS_REFERENCE": True}
        s4 = f"INSERT INTO {W} SELECT {B[0]}, {B[1]} AS {B[2]}, {B[2]} AS booked_{tag} FROM {T}"
        script[3] = s4
        annot[3] = ann("insert", W, [B[0], B[2], f"booked_{tag}"], [T], False)
        tgt4 = W
        expect = [[f"{T}.{B[2]}", f"{W}.booked_{tag}"]]
        # a second INSERT into an existing table accumulates rather than defines: not judged (out unknown)
        annot[3]["out"] = None
    spec = {"seed": seed, "script": script, "annot": annot, "provider": ps, "dialect": dialect, "shape": "recreate",
            "trailing_semicolon": g.random() < 0.8, "cfg": cfg}
    if expect and ps is not None:
        spec["expect_pairs"] = {"3": expect}
    return spec


def gen_reorder(g, seed, ps, dialect) -> dict:
    """A table whose columns the script defined is written again: first through an explicit column list in ANOTHER
    order, then positionally.  What the session knows about the table's columns - including their order, which is
    what a positional INSERT is matched against - must not change."""
    tag = f"k{seed % 1000}"
    b1, b2, b3 = g.sample(sorted(BASE_META), 3) if len(BASE_META) >= 3 else (sorted(BASE_META) * 3)[:3]
    T, W = g.sample(UNIVERSE, 2)
    n = g.choice([2, 3])
    cols = [f"c_{tag}_r{i}" for i in range(n)]
    pick = lambda b, k: [g.choice(BASE_META[b]) for _ in range(k)]
    x = pick(b1, n)
    s1 = f"CREATE TABLE {T} AS SELECT " + ", ".join(f"{a} AS {c}" for a, c in zip(x, cols)) + f" FROM {b1}"
    perm = list(cols)
    while perm == cols:
        g.shuffle(perm)
    y = BASE_META[b2][:n] if len(BASE_META[b2]) >= n else pick(b2, n)
    s2 = f"INSERT INTO {T} ({', '.join(perm)}) SELECT {', '.join(y)} FROM {b2}"
    z = list(dict.fromkeys(BASE_META[b3]))[:n]
    if len(z) < n:
        z = (z * n)[:n]
    s3 = f"INSERT INTO {T} SELECT {', '.join(z)} FROM {b3}"
    s4 = f"INSERT INTO {W} SELECT {', '.join(cols)} FROM {T}"
    ann = lambda kind, t, out, srcs_: {"kind": kind, "target": t, "out": out, "srcs": srcs_, "star": False, "wild": False}
    annot = [ann("ctas", T, list(cols), [b1]), ann("insert_cols", T, None, [b2]), ann("insert", T, None, [b3]), ann("insert", W, list(cols), [T])]
    spec = {"seed": seed, "script": [s1, s2, s3, s4], "annot": annot, "provider": ps, "dialect": dialect, "shape": "reorder",
            "trailing_semicolon": g.random() < 0.5, "keep_order": {"1": T, "2": T}}
    if len(set(z)) == n:
        spec["expect_pairs"] = {"2": [[f"{b3}.{zc}", f"{T}.{c}"] for zc, c in zip(z, cols)]}
    return spec


def gen_selfrewrite(g, seed, ps, dialect) -> dict:
    """A table the script created is rewritten FROM ITSELF by a later statement (de-duplication / filtering in place:
    directly, through a derived table, through a CTE, or through an explicit column list) and, maybe, read by a third.
    The rewrite composes to nothing new: every column still ends where it did - at the final target when a later
    statement consumes it, at the intermediate table when none does.  The generator knows the exact path set."""
    tag = f"k{seed % 1000}"
    b = g.choice(sorted(BASE_META))
    T, W = g.sample(UNIVERSE, 2)
    n = g.choice([2, 3, 3, 4])
    cols = [f"c_{tag}_s{i}" for i in range(n)]
    xs = [g.choice(BASE_META[b]) for _ in range(n)]
    s1 = f"CREATE TABLE {T} AS SELECT " + ", ".join(f"{x} AS {c}" for x, c in zip(xs, cols)) + f" FROM {b}"
    form = g.choice(["sub", "sub", "cte", "direct"] + (["cols"] if dialect == "ansi" else []))
    where = g.choice(["", f" WHERE {cols[0]} > 0", f" WHERE {cols[-1]} IS NOT NULL"])
    lst = ", ".join(cols)
    if form == "sub":
        s2 = f"INSERT INTO {T} SELECT {lst} FROM (SELECT {lst} FROM {T}{where}) latest_{tag}"
    elif form == "cte":
        s2 = f"WITH latest_{tag} AS (SELECT {lst} FROM {T}{where}) INSERT INTO {T} SELECT {lst} FROM latest_{tag}"
    elif form == "direct":
        s2 = f"INSERT INTO {T} SELECT {lst} FROM {T}{where}"
    else:
        sub = cols[:g.choice(range(1, n + 1))]
        s2 = f"INSERT INTO {T} ({', '.join(sub)}) SELECT {', '.join(sub)} FROM (SELECT {', '.join(sub)} FROM {T}) latest_{tag}"
    consumed = [c for c in cols if g.random() < 0.5]
    ann = lambda kind, t, out, srcs_: {"kind": kind, "target": t, "out": out, "srcs": srcs_, "star": False, "wild": False}
    script, annot = [s1, s2], [ann("ctas", T, list(cols), [b]), ann("insert_cols" if form == "cols" else "insert", T, None, [T])]
    if consumed:
        s3 = f"INSERT INTO {W} SELECT {', '.join(consumed)} FROM {T}"
        a3 = ann("insert", W, list(consumed), [T])
        if g.random() < 0.3:
            script.insert(1, s3)
            annot.insert(1, a3)
        else:
            script.append(s3)
            annot.append(a3)
    paths = sorted({(f"{b}.{x}", f"{T}.{c}") + ((f"{W}.{c}",) if c in consumed else ()) for x, c in zip(xs, cols)})
    return {"seed": seed, "script": script, "annot": annot, "provider": ps, "dialect": dialect, "shape": "selfrewrite",
            "trailing_semicolon": g.random() < 0.5, "expect_paths": [list(p) for p in paths]}


def gen_scalar_subquery(g, seed, ps, dialect) -> dict:
    """Between the statement that creates a table and the one that reads it through SELECT *, a statement whose select
    list holds a scalar sub-query (the library analyses it with a nested runner) - over one table or a join, with
    qualified or unqualified columns.  What the session knows about the created table must survive it."""
    tag = f"k{seed % 1000}"
    b1, b2, b3 = (g.sample(sorted(BASE_META), 3) if len(BASE_META) >= 3 else (sorted(BASE_META) * 3)[:3])
    T, V, W = g.sample(UNIVERSE, 3)
    n = g.choice([2, 3])
    cols = [f"c_{tag}_q{i}" for i in range(n)]
    xs = [g.choice(BASE_META[b1]) for _ in range(n)]
    s1 = f"CREATE TABLE {T} AS SELECT " + ", ".join(f"{x} AS {c}" for x, c in zip(xs, cols)) + f" FROM {b1}"
    u = g.choice(BASE_META[b2])
    inner = g.choice([f"SELECT max({u}) FROM {b2} JOIN {b3} ON 1 = 1", f"SELECT max({b2}.{u}) FROM {b2}", f"SELECT count(*) FROM {b2}, {b3}", f"SELECT min({u}) FROM {b2}"])
    expr = g.choice([f"({inner}) AS m_{tag}", f"CASE WHEN ({inner}) > 0 THEN 1 ELSE 0 END AS m_{tag}", f"coalesce(({inner}), 0) AS m_{tag}"])
    s2 = g.choice([f"INSERT INTO {V} SELECT {expr}, {cols[0]} FROM {T}", f"INSERT INTO {V} SELECT {expr}, {g.choice(BASE_META[b1])} FROM {b1}", f"SELECT {expr} FROM {b1}"])
    s3 = g.choice([f"INSERT INTO {W} SELECT * FROM {T}", f"CREATE TABLE {W} AS SELECT * FROM {T}", f"CREATE VIEW {W} AS SELECT * FROM {T}"])
    in_use = ps is not None and bool(ps["meta"])
    ann = lambda kind, t, out, srcs_, st=False: {"kind": kind, "target": t, "out": out, "srcs": srcs_, "star": st, "wild": st}
    k3 = "insert" if s3.startswith("INSERT") else ("ctas" if "TABLE" in s3 else "view")
    a2 = ann("insert", V, None, [T, b2, b3]) if s2.startswith("INSERT") else {"kind": "select", "target": None, "out": None, "srcs": [], "star": False, "wild": False}
    return {"seed": seed, "script": [s1, s2, s3], "annot": [ann("ctas", T, list(cols), [b1]), a2, ann(k3, W, list(cols) if in_use else None, [T], True)],
            "provider": ps, "dialect": dialect, "shape": "scalar_subquery", "trailing_semicolon": g.random() < 0.5}


def gen_touch(g, seed, ps, dialect) -> dict:
    """A table created by the script, then written by a statement that does not define it and touches only some of
    its columns (UPDATE with and without FROM, MERGE, INSERT with a partial / permuted / no column list, VALUES), then read
    through SELECT * - alone or joined. What the session knows about the table must survive the write in between."""
    tag = f"k{seed % 1000}"
    b1, b2 = g.sample(sorted(BASE_META), 2)
    T, W = g.sample(UNIVERSE, 2)
    n = g.choice([2, 3])
    cols = [f"c_{tag}_w{i}" for i in range(n)]
    xs = [g.choice(BASE_META[b1]) for _ in range(n)]
    s1 = g.choice(["CREATE TABLE", "CREATE TABLE", "CREATE VIEW"]) + f" {T} AS SELECT " + ", ".join(f"{x} AS {c}" for x, c in zip(xs, cols)) + f" FROM {b1}"
    u, u2 = g.choice(BASE_META[b2]), g.choice(BASE_META[b2])
    c, c2 = g.sample(cols, 2)
    mids = [
        f"UPDATE {T} SET {c} = 1",
        f"UPDATE {T} SET {c} = (SELECT max({u}) FROM {b2})",
        f"INSERT INTO {T} VALUES (" + ", ".join("1" for _ in cols) + ")",
        f"INSERT INTO {T} ({c}) SELECT {u} FROM {b2}",
        f"INSERT INTO {T} ({c}, {c2}) SELECT {u}, {u2} FROM {b2}",
        f"INSERT INTO {T} SELECT " + ", ".join(g.choice(BASE_META[b2]) for _ in cols) + f" FROM {b2}",
        f"INSERT INTO {T} SELECT {u} FROM {b2}",
        f"MERGE INTO {T} tg USING {b2} sr ON tg.{c2} = sr.{u2} WHEN MATCHED THEN UPDATE SET {c} = sr.{u}",
        f"MERGE INTO {T} tg USING {b2} sr ON tg.{c2} = sr.{u2} WHEN NOT MATCHED THEN INSERT ({c}) VALUES (sr.{u})",
    ]
    if dialect in ("ansi", "postgres", "tsql", "snowflake", "bigquery"):
        mids += [f"UPDATE {T} SET {c} = r.{u} FROM {b2} r", f"UPDATE {T} SET {c} = r.{u} FROM {b2} r WHERE {T}.{c2} = r.{u2}"]
    mid = g.choice(mids)
    s3 = g.choice([f"INSERT INTO {W} SELECT * FROM {T}", f"CREATE TABLE {W} AS SELECT * FROM {T}", f"INSERT INTO {W} SELECT l.*, r.{u} AS c_{tag}_z FROM {T} l JOIN {b2} r ON 1 = 1"])
    other = {"kind": "other", "target": None, "out": None, "srcs": [], "star": False, "wild": False}
    k3 = "insert" if s3.startswith("INSERT") else "ctas"
    a1 = {"kind": "view" if "VIEW" in s1 else "ctas", "target": T, "out": list(cols), "srcs": [b1], "star": False, "wild": False}
    a3 = {"kind": k3, "target": W, "out": None, "srcs": [T] + ([b2] if "JOIN" in s3 else []), "star": "JOIN" not in s3, "wild": True}
    return {"seed": seed, "script": [s1, mid, s3], "annot": [a1, dict(other), a3], "provider": ps, "dialect": dialect, "shape": "touch",
            "trailing_semicolon": g.random() < 0.5}


def gen(seed) -> dict:
    g = stream(seed, "gen")
    r = g.random()
    if r < 0.3:
        ps = None
        base = {}
    else:
        meta = dict(BASE_META) if g.random() < 0.6 else {k: v for k, v in BASE_META.items() if g.random() < 0.6}
        ps = {"kind": "sim" if g.random() < 0.6 else "dummy", "meta": meta}
        base = meta
    dialect = g.choice(["ansi", "ansi", "non-validating"])
    if g.random() < 0.15:
        return gen_recreate(g, seed, ps, base, dialect)
    if ps is not None and ps["meta"] and dialect == "ansi" and g.random() < 0.12:
        return gen_reorder(g, seed, ps, dialect)
    if g.random() < 0.06:
        return gen_selfrewrite(g, seed, ps, dialect)
    if ps is not None and g.random() < 0.07:
        return gen_scalar_subquery(g, seed, ps, dialect)
    gt = stream(seed, "gen-touch")
    if ps is not None and ps["meta"] and gt.random() < 0.08:
        return gen_touch(gt, seed, ps, gt.choice(["ansi", "ansi", "non-validating", "postgres", "mysql", "tsql", "sparksql", "bigquery", "snowflake"]))
    sg = ScriptGen(g, f"k{seed % 1000}", known=base, allow_drop_rename=False, allow_cte=g.random() < 0.5)
    sg.strict_subquery_cols = True
    sg.shadow_targets = sorted(base)
    n = g.choice([2, 3, 3, 4, 5])
    script, annot = [], []
    tries = 0
    while len(script) < n and tries < 40:
        tries += 1
        k = len(sg.annot)
        snap = ({t: list(c) for t, c in sg.cols.items()}, list(sg.written))
        s = sg.stmt()
        a = sg.annot[k] if len(sg.annot) > k else None
        if a is not None and (s.count(a["target"]) > 1 or a["target"] in {x["target"] for x in annot}
                              or (a["kind"] == "insert_cols" and (dialect == "non-validating" or a["wild"]))):
            # a statement that reads the table it writes is not a chain step, and re-defining a table whose columns
            # the script already defined is not what the property describes; how ONE statement maps a wildcard onto
            # an explicit column list, and the legacy parser ignoring the column list of a schema-qualified target,
            # are single-statement questions (C02/C09, not claimed). Undo what the generator learned.
            del sg.annot[k:]
            sg.cols, sg.written = snap
            continue
        if a is None:
            if s.startswith("SELECT") and g.random() < 0.3:
                script.append(s)
                annot.append({"kind": "select", "target": None, "out": None, "srcs": [], "star": False, "wild": False})
            continue
        script.append(s)
        annot.append(a)
    spec = {"seed": seed, "script": script, "annot": annot, "provider": ps, "dialect": dialect, "trailing_semicolon": g.random() < 0.5}
    if g.random() < 0.3:
        g3 = stream(seed, "aborted")
        pre = ScriptGen(g3, f"k{seed % 1000}", known=base, allow_drop_rename=False).script(g3.choice([1, 2, 3]))
        pre.append("SELECT FROM WHERE")
        spec["aborted_before"] = pre
    return spec


def plan(seed: int, tier: str) -> list[dict]:
    master = stream(seed, "c04-plan")
    n = {"quick": 6000, "thorough": 120_000}[tier]
    block = 25
    units = []
    for b in range(n // block):
        hs = [0, 1, 2, 3, 5, 8][b % 6]
        units.append({"key": {"hash_seed": hs}, "specs": [gen(master.randrange(2 ** 48)) for _ in range(block)], "wall_s": 300.0})
    return units


def shrink_candidates(spec):
    out = []
    n = len(spec["script"])
    if n > 1 and spec.get("expect_paths") is None:  # (an expected path set describes the whole script)
        for i in range(n):
            tgt = spec["annot"][i].get("target")
            if tgt and any(tgt in later for later in spec["script"][i + 1:]):
                continue  # later statements (and their annotations) depend on this one
            s = dict(spec)
            s["script"] = spec["script"][:i] + spec["script"][i + 1:]
            s["annot"] = spec["annot"][:i] + spec["annot"][i + 1:]
            out.append(s)
    if spec.get("aborted_before"):
        s = dict(spec)
        s.pop("aborted_before")
        out.append(s)
    if spec.get("provider") and spec["provider"]["meta"]:
        for t in list(spec["provider"]["meta"]):
            s = json.loads(json.dumps(spec))
            del s["provider"]["meta"][t]
            out.append(s)
    return out
