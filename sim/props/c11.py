"""C11 -- analysis is deterministic.

The seam is the string-hash seed of the interpreter (set iteration order), the
process (fresh fork per observation) and the order / repetition of accessor
calls.  One *observation* = one input analysed in a fresh fork of a zygote
started with a chosen PYTHONHASHSEED, with a seeded accessor program (a
permutation with repetitions of every public accessor).  The oracle compares
observations of the same input across worlds (DESIGN.md 4.3); it therefore
lives in the driver, not in a child.
"""
from __future__ import annotations

import glob
import json
import os
import re

from .. import canon
from ..framework import Agg, job
from ..gen_sql import BASE_META, ScriptGen
from ..util import REPO_DIR, VERIF_DIR, digest, short, stream

ID = "C11"
PRELOAD = ["sqllineage.runner", "sim.props.c11"]
BUDGET_S = {"quick": 300.0, "thorough": 2400.0}

DESCRIPTION = {
    "rule": (
        "inputs = corpus harvested from the repository's own tests (sql, dialect, metadata, config as the tests build them) + bundled "
        "TPC-DS queries + generated multi-statement scripts (with and without metadata) + shapes with several equal-rank candidates in "
        "one set (many unqualified columns over several relations, wildcard over several known tables with disjoint columns, DROP/RENAME "
        "mixes, multi-pair RENAME, CTE shapes, lateral column alias chains with the LATERAL_COLUMN_ALIAS_REFERENCE knob on) + cross-dialect warm inputs "
        "(the same text analysed under another dialect / T-SQL split mode earlier in the process); each input is observed in H zygotes with different PYTHONHASHSEED (4 quick / 32 thorough, derived "
        "from VERIF_SEED, always including 0) x 2 fresh forks, one with the canonical accessor order and one with a seeded permutation "
        "with repetitions of all 13 accessors, plus one *warm-process* world per input in which other scripts (a sibling over the same names, "
        "the two neighbouring corpus inputs, sometimes the script itself) are analysed first in the same process; all canonical answers must agree (modulo subquery_<int>). An input counts as one case; it "
        "is non-trivial iff its analysis produced >=2 tables or >=2 column paths (so that some set had an order to get wrong)."
    ),
    "real_code": ["all of sqllineage reachable from LineageRunner accessors", "sqlfluff, sqlparse, networkx", "DummyMetaDataProvider"],
    "stubs": ["none (the interpreter's hash seed and the process are chosen by the simulator)"],
    "assumptions": [
        "canonicalisation rewrites subquery_<int> to subquery_? and re-sorts lists afterwards; edge ids of the cytoscape export (positional) are dropped",
        "exceptions are compared by type name",
        "metadata is served by DummyMetaDataProvider built from the dict the tests use (SQLAlchemy-backed providers of the test-suite are not replayed)",
    ],
    "required_probes": {"quick": ["multi_element_result", "accessor_permuted", "accessor_repeated", "warm_process", "warm_same_text_other_dialect", "warm_same_text_other_project_config"],
                        "thorough": ["multi_element_result", "accessor_permuted", "accessor_repeated", "warm_process", "warm_same_text_other_dialect"]},
}

_WS = re.compile(r"\s+")


def norm_sql(s: str) -> str:
    return _WS.sub(" ", s).strip()


def input_id(inp: dict) -> str:
    return short([norm_sql(inp["sql"]), inp["dialect"], inp.get("meta"), inp.get("cfg") or {}, bool(inp.get("silent"))] + ([inp["project"]] if inp.get("project") else []), 20)


# ---------------------------------------------------------------------------
# child side


def observe_one(spec: dict) -> dict:
    from sqllineage.config import SQLLineageConfig
    from sqllineage.core.metadata.dummy import DummyMetaDataProvider
    from sqllineage.runner import LineageRunner

    # a "warm" process: other inputs were analysed (all accessors) earlier in this very process
    for pre in spec.get("prelude") or []:
        observe_one({"input": pre, "prog": list(canon.ACCESSORS)})
    inp = spec["input"]
    kwargs = {"dialect": inp["dialect"], "silent_mode": bool(inp.get("silent"))}
    if inp.get("meta") is not None:
        kwargs["metadata_provider"] = DummyMetaDataProvider({k: list(v) for k, v in inp["meta"].items()})
    if inp.get("project"):
        # part of the run's configuration: a project directory whose .sqlfluff gives the templated text its meaning,
        # selected through file_path
        import tempfile

        d = os.path.join(os.environ.get("VERIF_WORK") or tempfile.gettempdir(), "c11-proj-" + short(inp["project"], 16))
        os.makedirs(d, exist_ok=True)
        with open(os.path.join(d, ".sqlfluff"), "w") as f:
            f.write("[sqlfluff:templater:jinja:context]\n" + "".join(f"{k}={v}\n" for k, v in sorted(inp["project"].items())))
        kwargs["file_path"] = os.path.join(d, "script.sql")

    def go():
        runner = LineageRunner(inp["sql"], **kwargs)
        obs: dict[str, list] = {}
        vals: dict[str, object] = {}
        for a in spec["prog"]:
            v = canon.call(runner, a)
            obs.setdefault(a, []).append(short(v, 20))
            vals.setdefault(a, v)
        return obs, vals

    if inp.get("cfg"):
        with SQLLineageConfig(**inp["cfg"]):
            obs, vals = go()
    else:
        obs, vals = go()
    size = 0
    for a in ("source_tables", "target_tables", "intermediate_tables", "col_tt"):
        if isinstance(vals.get(a), list):
            size += len(vals[a])
    out = {"obs": obs, "size": size, "hash_seed": os.environ.get("PYTHONHASHSEED")}
    if spec.get("want_values"):
        out["vals"] = vals
    return out


def execute(arg: dict) -> dict:
    return {"runs": [observe_one(s) for s in arg["specs"]]}


# ---------------------------------------------------------------------------
# driver side: judging a case = an input observed in several worlds


def judge(inp: dict, worlds: list[dict], observations: list[dict]) -> dict:
    """worlds[i] = {"hash_seed", "prog"}; observations[i] = child result."""
    probes = {}
    ref = observations[0]
    viol = None
    for w, o in zip(worlds, observations):
        for a, ds in o["obs"].items():
            if len(set(ds)) > 1 and viol is None:
                viol = {"class": "repeat_dependent", "accessor": a, "pair": [w, w],
                        "message": f"accessor {a} answered differently when called again in the same run (hash seed {w['hash_seed']})"}
            if len(ds) > 1:
                probes["accessor_repeated"] = 1
    for w, o in zip(worlds[1:], observations[1:]):
        if w.get("prelude"):
            probes["warm_process"] = 1
            if any(pre["sql"] == inp["sql"] and pre["dialect"] != inp["dialect"] for pre in w["prelude"]):
                probes["warm_same_text_other_dialect"] = 1
            if inp.get("project") and any(pre["sql"] == inp["sql"] and pre.get("project") != inp["project"] for pre in w["prelude"]):
                probes["warm_same_text_other_project_config"] = 1
        if w["prog"] != worlds[0]["prog"]:
            probes["accessor_permuted"] = 1
        for a, ds in o["obs"].items():
            if a in ref["obs"] and ds[0] != ref["obs"][a][0] and viol is None:
                if w.get("prelude"):
                    c = "process_history_dependent"
                elif w["hash_seed"] != worlds[0]["hash_seed"]:
                    c = "hash_seed_dependent"
                elif w["prog"] != worlds[0]["prog"]:
                    c = "order_or_fork_dependent"
                else:
                    c = "fork_dependent"
                msg = f"accessor {a} differs between (hash seed {worlds[0]['hash_seed']}) and (hash seed {w['hash_seed']})"
                if w.get("prelude"):
                    msg = (f"accessor {a} differs between a fresh process and a process that analysed {len(w['prelude'])} other script(s) first "
                           f"(hash seed {w['hash_seed']}; first prelude script: {norm_sql(w['prelude'][0]['sql'])[:200]})")
                if "vals" in o and "vals" in ref:
                    msg += f": {json.dumps(ref['vals'].get(a))[:500]} vs {json.dumps(o['vals'].get(a))[:500]}"
                viol = {"class": c, "accessor": a, "pair": [worlds[0], w], "message": msg}
    if max(o["size"] for o in observations) >= 2:
        probes["multi_element_result"] = 1
    rr = {
        "verdict": "violation" if viol else "ok",
        "digest": input_id(inp),
        "steps": sum(len(w["prog"]) for w in worlds),
        "faults": {"hash_seed": len({w["hash_seed"] for w in worlds}), "accessor_reorder": sum(1 for w in worlds[1:] if w["prog"] != worlds[0]["prog"]),
                   "warm_process": sum(1 for w in worlds if w.get("prelude"))},
        "probes": probes,
        "nontrivial": "multi_element_result" in probes,
        "log_digest": digest([[w["hash_seed"], sorted(o["obs"].items())] for w, o in zip(worlds, observations)]),
    }
    if viol:
        rr["violation"] = {"class": viol["class"], "message": f"input {inp['dialect']}: {norm_sql(inp['sql'])[:300]} -- " + viol["message"], "accessor": viol["accessor"]}
        rr["spec"] = {"input": inp, "worlds": viol["pair"] if viol["pair"][0] is not viol["pair"][1] else [viol["pair"][0]]}
    return rr


def eval_many(pool, key, specs):
    """spec = {"input", "worlds": [...]}: run every world of every spec in its own fresh fork."""
    import sys

    mod = sys.modules[__name__]
    jobs = []
    idx = []
    for si, s in enumerate(specs):
        for wi, w in enumerate(s["worlds"]):
            jobs.append(job(mod, {"hash_seed": w["hash_seed"]}, [{"input": s["input"], "prog": w["prog"], "prelude": w.get("prelude"), "want_values": True}], 240.0))
            idx.append((si, wi))
    res = pool.run(jobs)
    per: dict[int, list] = {}
    bad = set()
    for (si, wi), r in zip(idx, res):
        if r is None or not r.get("ok"):
            bad.add(si)
            continue
        per.setdefault(si, []).append((wi, r["result"]["runs"][0]))
    out = []
    for si, s in enumerate(specs):
        if si in bad:
            out.append(None)
            continue
        obs = [o for _, o in sorted(per[si], key=lambda x: x[0])]
        out.append(judge(s["input"], s["worlds"], obs))
    return out


# ---------------------------------------------------------------------------
# inputs


def corpus_inputs() -> list[dict]:
    with open(os.path.join(VERIF_DIR, "corpus", "corpus.json")) as f:
        items = json.load(f)
    out = []
    for it in items:
        out.append({"sql": it["sql"], "dialect": it["dialect"], "meta": it["meta"], "cfg": it.get("cfg") or {}, "silent": it.get("silent", False), "src": "corpus"})
    return out


XDIALECTS = ["ansi", "sparksql", "mysql", "bigquery", "postgres", "tsql", "snowflake", "hive", "non-validating"]
# statements whose reading depends on the dialect's quoting / keywords (double quotes, brackets, TOP, INTO, backticks)
XSHAPES = [
    'INSERT INTO tgt SELECT "a" AS c, b FROM src',
    'INSERT INTO tgt SELECT "a", "b" FROM "src"',
    "INSERT INTO tgt SELECT [a], b FROM [s1].[src]",
    "SELECT TOP 10 a, b INTO tgt FROM src",
    "SELECT a, b INTO tgt FROM src WHERE a > 1",
    "INSERT INTO tgt SELECT `a`, b FROM `src`",
    'INSERT INTO tgt SELECT t."a" AS x FROM src t JOIN "other" o ON t.k = o.k',
    "INSERT OVERWRITE TABLE tgt SELECT a, b FROM src",
    "INSERT INTO tgt SELECT a, b FROM src;\nINSERT INTO tgt2 SELECT \"a\" AS c FROM tgt",
    # (round 11) the dialect-sensitive token sits INSIDE brackets - derived table, nested brackets, IN / scalar sub-query,
    # CTE body: anything a layer keeps per bracketed piece of text rather than per statement
    'INSERT INTO tgt SELECT s.c FROM (SELECT "x" AS c FROM t) s',
    'INSERT INTO tgt SELECT s.c, s.d FROM ((SELECT "x" AS c, y AS d FROM t)) s',
    "INSERT INTO tgt SELECT s.c FROM (SELECT `x` AS c FROM t) s",
    "INSERT INTO tgt SELECT s.c FROM (SELECT [x] AS c FROM t) s",
    'INSERT INTO tgt SELECT a FROM src WHERE a IN (SELECT "k" FROM other)',
    'INSERT INTO tgt SELECT (SELECT max("v") FROM other) AS m, b FROM src',
    'INSERT INTO tgt WITH q AS (SELECT "x" AS c FROM t) SELECT c FROM q',
    'INSERT INTO tgt SELECT s.c FROM (SELECT "x" AS c FROM t) s JOIN (SELECT "y" AS d FROM u) r ON s.c = r.d',
]


def xdialect_inputs(seed: int, n: int) -> list[dict]:
    """The same script text met under ANOTHER dialect / configuration earlier in the same process (warm world):
    the dialect, metadata and configuration of the run being observed are the only things its answers may depend on."""
    g = stream(seed, "c11-xdialect")
    pool_ = [it for it in corpus_inputs() if it["dialect"] not in ("non-validating", "ansi")]
    out = []
    for i in range(n):
        if g.random() < 0.45:
            sql, meta, x = g.choice(XSHAPES), None, g.choice(["tsql", "tsql", "ansi", "sparksql", "mysql", "bigquery"])
        else:
            it = g.choice(pool_)
            sql, meta, x = it["sql"], it["meta"], it["dialect"]
        if g.random() < 0.3 and not sql.rstrip().endswith(";"):
            sql = sql + g.choice([";", "\n", " "])
        d = g.choice([y for y in XDIALECTS if y != x])
        pre = {"sql": sql, "dialect": x, "meta": meta, "cfg": ({"TSQL_NO_SEMICOLON": True} if x == "tsql" and g.random() < 0.8 else {}), "silent": False, "src": "xdialect-pre"}
        out.append({"sql": sql, "dialect": d, "meta": meta, "cfg": ({"TSQL_NO_SEMICOLON": True} if d == "tsql" and g.random() < 0.3 else {}), "silent": False,
                    "src": "xdialect", "siblings": [pre]})
    return out


def project_inputs(seed: int, n: int) -> list[dict]:
    """Templated scripts whose meaning comes from the .sqlfluff of the project directory named by file_path; the warm
    world analyses the byte-identical text under ANOTHER project's context first."""
    g = stream(seed, "c11-project")
    out = []
    for i in range(n):
        ctxs = [{"src_tbl": f"raw{j}.orders_{i}", "tgt_tbl": f"mart{j}.daily_{i}", "col": g.choice(["amount", "qty"]) if j else "amount"} for j in range(2)]
        sql = g.choice(["INSERT INTO {{ tgt_tbl }} SELECT id, {{ col }} AS v FROM {{ src_tbl }}",
                        "CREATE TABLE {{ tgt_tbl }} AS SELECT * FROM {{ src_tbl }};\nINSERT INTO m.final SELECT * FROM {{ tgt_tbl }}",
                        "INSERT INTO {{ tgt_tbl }} SELECT a.id, b.{{ col }} FROM {{ src_tbl }} a JOIN m.dim b ON a.id = b.id"])
        a, b = (0, 1) if g.random() < 0.5 else (1, 0)
        base = {"sql": sql, "dialect": g.choice(["ansi", "ansi", "sparksql"]), "meta": None, "cfg": {}, "silent": False}
        out.append(dict(base, src="project", project=ctxs[a], siblings=[dict(base, src="project-pre", project=ctxs[b])]))
    return out


def tpcds_inputs() -> list[dict]:
    out = []
    for f in sorted(glob.glob(os.path.join(REPO_DIR, "sqllineage", "data", "tpcds", "*.sql"))):
        out.append({"sql": open(f).read(), "dialect": "ansi", "meta": None, "cfg": {}, "silent": False, "src": "tpcds:" + os.path.basename(f)})
    return out


def risky(g, tag: str) -> dict:
    """Shapes with several equal-rank candidates in one set."""
    kind = g.choice(["unqualified_many", "wildcard_disjoint", "drop_rename_mix", "multi_rename", "many_tables", "many_targets", "consumption_variants", "consumption_variants", "repeated_target", "repeated_target", "anon_derived_star", "column_ring", "column_ring", "cte_shapes", "cte_shapes", "cte_shapes", "lateral_alias", "lateral_alias", "lateral_alias", "lateral_alias"])
    meta = None
    dialect = g.choice(["ansi", "non-validating"])
    if kind == "unqualified_many":
        n = g.choice([2, 3, 4])
        tabs = [f"m.r{i}" for i in range(n)]
        meta = {t: [f"k{i}", f"v{i}a", f"v{i}b"] for i, t in enumerate(tabs)} if g.random() < 0.6 else None
        cols = [f"v{g.randrange(n)}{g.choice('ab')}" for _ in range(g.choice([2, 3, 5]))]
        cols = list(dict.fromkeys(cols))
        frm = tabs[0] + "".join(f" JOIN {t} ON {tabs[0]}.k0 = {t}.k{i + 1}" for i, t in enumerate(tabs[1:]))
        sql = f"INSERT INTO m.out_{tag} SELECT {', '.join(cols)} FROM {frm}"
    elif kind == "wildcard_disjoint":
        n = g.choice([2, 3])
        tabs = [f"m.w{i}" for i in range(n)]
        meta = {t: [f"w{i}c{j}" for j in range(g.choice([1, 2, 3]))] for i, t in enumerate(tabs)}
        frm = tabs[0] + "".join(f" CROSS JOIN {t}" for t in tabs[1:])
        sql = f"INSERT INTO m.out_{tag} SELECT * FROM {frm}"
    elif kind == "drop_rename_mix":
        sg = ScriptGen(g, tag)
        stmts = sg.script(g.choice([3, 4, 5]))
        for _ in range(2):
            u = g.choice(sg.universe)
            v = g.choice([x for x in sg.universe if x != u])
            stmts.insert(g.randrange(1, len(stmts) + 1), g.choice([f"DROP TABLE {u}", f"ALTER TABLE {u} RENAME TO {v}"]))
        sql = ";\n".join(stmts)
        meta = dict(BASE_META) if g.random() < 0.5 else None
    elif kind == "multi_rename":
        dialect = "mysql"
        names = ["a", "b", "c", "d"]
        pre = [f"INSERT INTO {g.choice(names)} SELECT * FROM src{i}" for i in range(g.choice([1, 2, 3]))]
        pairs = []
        for _ in range(g.choice([2, 2, 3])):
            x = g.choice(names)
            y = g.choice([n for n in names + ["e", "f"] if n != x])
            pairs.append(f"{x} TO {y}")
        sql = ";\n".join(pre + ["RENAME TABLE " + ", ".join(pairs)])
    elif kind == "cte_shapes":
        # several CTEs in one statement: chains, fan-in, names that differ only in case (quoted), a reference that
        # matches a CTE only when case is ignored.  NOT generated: a nested WITH re-using an outer CTE name, and one
        # alias bound to different CTEs in different UNION branches - those two shapes are pinned known findings.
        dialect = g.choice(["ansi", "ansi", "snowflake", "postgres"])
        n = g.choice([2, 3, 4])
        base = g.choice(["tmp", "Stage", "cte"])
        variants = [base.lower(), base.upper(), base.capitalize(), base.lower() + "_2", base.upper() + "_3"]
        names = g.sample(variants, n)
        quoted = g.random() < 0.7
        if quoted and g.random() < 0.7:
            # two quoted names that differ only in case, and (below) a reference spelled in a third way
            names[:2] = g.sample(variants[:3], 2)
        names = list(dict.fromkeys(names))  # no CTE name twice
        if not quoted:
            # unquoted identifiers are case-insensitive: names differing only in case would be duplicate CTE names
            seen_l, uniq = set(), []
            for nm in names:
                if nm.lower() not in seen_l:
                    seen_l.add(nm.lower())
                    uniq.append(nm)
            names = uniq if len(uniq) >= 2 else [base.lower(), base.lower() + "_2"]
        ctes = []
        for i, nm in enumerate(names):
            src = f"m.x{i}" if (i == 0 or g.random() < 0.6) else ('"%s"' % names[i - 1] if quoted else names[i - 1])
            ctes.append((('"%s"' % nm) if quoted else nm) + f" AS (SELECT a, b{i} FROM {src})")
        ref = g.choice(names[:2])
        third = [v for v in variants[:3] if v not in names] or [ref.lower()]
        ref_spelled = g.choice([third[0], third[0], ref.lower(), ref.upper(), ('"%s"' % ref)]) if quoted else g.choice([ref, ref.lower(), ref.upper()])
        tail = f"SELECT a FROM {ref_spelled}"
        if g.random() < 0.4:
            other = g.choice(names)
            tail += " UNION ALL SELECT a FROM " + (('"%s"' % other) if quoted else other)
        sql = f"INSERT INTO m.tgt_{tag} WITH " + ", ".join(ctes) + " " + tail
    elif kind == "column_ring":
        # a directed ring of tables passing the same column on (a synchronisation loop), with feeds entering the ring
        # at different tables and consumers leaving it at different tables: path enumeration has to cope with loops
        n = g.choice([3, 3, 4, 5])
        col = g.choice(["email", "k"])
        ring = [f"m.r{i}" for i in range(n)]
        stmts = []
        feeds = g.sample(range(n), g.choice([2, 2, 3]) if n > 2 else 2)
        for fi, at in enumerate(feeds):
            stmts.append(f"INSERT INTO {ring[at]} SELECT {col} FROM m.feed{fi}")
        for i in range(n):
            stmts.append(f"INSERT INTO {ring[(i + 1) % n]} SELECT {col} FROM {ring[i]}")
        for oi, at in enumerate(g.sample(range(n), g.choice([1, 1, 2]))):
            stmts.append(f"INSERT INTO m.report{oi} SELECT {col} FROM {ring[at]}")
        if g.random() < 0.5:
            g.shuffle(stmts)
        sql = ";\n".join(stmts)
        dialect = g.choice(["ansi", "non-validating"])
    elif kind == "anon_derived_star":
        # SELECT * over derived tables WITHOUT alias (their names are generated) that share a column name
        n = g.choice([2, 2, 3])
        subs = []
        for i in range(n):
            cols = ["k"] + [f"d{i}{j}" for j in range(g.choice([1, 2]))] + (["shared"] if g.random() < 0.5 else [])
            subs.append(f"(SELECT {', '.join(cols)} FROM m.a{i})" + (f" x{i}" if g.random() < 0.25 else ""))
        join = subs[0] + "".join(f" JOIN {sq} USING (k)" for sq in subs[1:])
        sql = f"INSERT INTO m.out_{tag} SELECT * FROM {join}"
        if g.random() < 0.4:
            sql += f";\nINSERT INTO m.final_{tag} SELECT * FROM m.out_{tag}"
        # sibling for the warm-process world: the same pieces met in another order earlier in the process
        rev = list(reversed(subs))
        sib = f"INSERT INTO m.other_{tag} SELECT * FROM " + rev[0] + "".join(f" JOIN {sq} USING (k)" for sq in rev[1:])
        inp = {"sql": sql, "dialect": dialect, "meta": None, "cfg": {}, "silent": False, "src": "risky:" + kind}
        inp["siblings"] = [{"sql": sib, "dialect": dialect, "meta": None, "cfg": {}, "silent": False, "src": "sibling"}]
        return inp
    elif kind == "repeated_target":
        # the same table written three or more times in one script, positionally and with column lists: whatever the
        # session remembers about the table between the writes (and in which ORDER) decides the later mappings
        dialect = g.choice(["ansi", "ansi", "non-validating"])
        k = g.choice([2, 3, 4])
        nsrc = g.choice([3, 4])
        meta = {f"m.s{i}": [f"s{i}c{j}" for j in range(k + 1)] for i in range(nsrc)}
        if g.random() < 0.3:
            meta["m.fact"] = [f"f{j}" for j in range(k)]
        stmts = []
        for i in range(nsrc):
            cols = [f"s{i}c{j}" for j in range(k)]
            form = g.random()
            if form < 0.45 or i == 0:
                sel = ", ".join(f"{c} AS n{j}" if i == 0 or g.random() < 0.5 else c for j, c in enumerate(cols))
                stmts.append(f"INSERT INTO m.fact SELECT {sel} FROM m.s{i}")
            elif form < 0.7:
                names = ", ".join(f"n{j}" for j in g.sample(range(k), k))
                stmts.append(f"INSERT INTO m.fact ({names}) SELECT {', '.join(cols)} FROM m.s{i}")
            elif form < 0.85:
                stmts.append(f"INSERT INTO m.fact SELECT * FROM m.s{i}")
            else:
                stmts.append(f"CREATE TABLE m.fact AS SELECT {', '.join(cols)} FROM m.s{i}")
        if g.random() < 0.5:
            stmts.append("INSERT INTO m.final SELECT * FROM m.fact")
        sql = ";\n".join(stmts)
    elif kind == "consumption_variants":
        # the same definition of a table, consumed downstream in different ways; the sibling (analysed first in the
        # warm-process world) is another variant over the very same names
        t = g.choice(["m.v1", "m.v2"])
        cols = g.choice([["d1"], ["d1", "d2"], ["*"]])
        define = f"CREATE TABLE {t} AS SELECT " + (", ".join(f"a{i} AS {c}" for i, c in enumerate(cols)) if cols != ["*"] else "*") + " FROM m.src"
        c0 = cols[0]

        def variant(k):
            if k == 0:
                return [define]
            if k == 1:
                return [define, f"INSERT INTO m.out SELECT {c0} FROM {t}"]
            if k == 2:
                return [define, f"SELECT q.x FROM (SELECT {c0 if c0 != '*' else 'zz'} AS x FROM {t}) q"]
            if k == 3:
                return [define, f"INSERT INTO m.out SELECT q.x FROM (SELECT {c0 if c0 != '*' else 'zz'} AS x, {cols[-1] if cols[-1] != '*' else 'yy'} AS y FROM {t}) q"]
            return [define, f"INSERT INTO m.out SELECT * FROM {t}", f"INSERT INTO m.out2 SELECT * FROM m.out"]

        ks = g.sample(range(5), 5)
        sql = ";\n".join(variant(ks[0]))
        inp = {"sql": sql, "dialect": dialect, "meta": None, "cfg": {}, "silent": False, "src": "risky:" + kind}
        # every other variant is analysed first (in a seeded order) in the warm-process world
        inp["siblings"] = [{"sql": ";\n".join(variant(k)), "dialect": dialect, "meta": None, "cfg": {}, "silent": False, "src": "sibling"} for k in ks[1:]]
        return inp
    elif kind == "lateral_alias":
        # lateral column alias references (a configuration knob that is off by default): select elements that define
        # aliases, reference earlier aliases together with other columns, and reference the same alias more than once
        src = f"m.src_{tag}"
        base = [f"c{i}" for i in range(g.choice([2, 3, 4]))]
        aliases, items = [], []
        for k in range(g.choice([3, 4, 5, 6])):
            if not aliases or g.random() < 0.2:
                expr = g.choice(base)
            elif k in (1, 2) and g.random() < 0.7:
                # the cooperating core: an alias referenced together with another column, and the same alias again
                expr = [f"{aliases[0]} + {g.choice(base)}", f"{aliases[0]} * 2"][k - 1] if g.random() < 0.5 else [f"{aliases[0]} * 2", f"{g.choice(base)} - {aliases[0]}"][k - 1]
            else:
                parts = [g.choice(aliases)] + [g.choice(aliases + base) for _ in range(g.choice([0, 1, 1, 2]))]
                g.shuffle(parts)
                expr = g.choice([" + ".join(parts), "coalesce(" + ", ".join(parts) + ")", f"{parts[0]} * 2", f"CASE WHEN {parts[0]} > 0 THEN {parts[-1]} ELSE {g.choice(base)} END"])
            name = f"a{k}" if g.random() < 0.9 else g.choice(base)
            items.append(f"{expr} AS {name}")
            aliases.append(name)
        sql = f"INSERT INTO m.out_{tag} SELECT {', '.join(items)} FROM {src}"
        if g.random() < 0.3:
            sql += f" JOIN m.oth_{tag} ON {src}.k = m.oth_{tag}.k"
        meta = {src: ["k"] + base, f"m.oth_{tag}": ["k", "z"]} if g.random() < 0.75 else None
        return {"sql": sql, "dialect": "ansi" if g.random() < 0.8 else "non-validating", "meta": meta,
                "cfg": ({"LATERAL_COLUMN_ALIAS_REFERENCE": True} if g.random() < 0.85 else {}), "silent": False, "src": "risky:" + kind}
    elif kind == "many_tables":
        n = g.choice([4, 6, 8])
        tabs = [f"m.j{i}" for i in range(n)]
        frm = f"{tabs[0]} t0" + "".join(f" JOIN {t} t{i + 1} ON t0.id = t{i + 1}.id" for i, t in enumerate(tabs[1:]))
        items = ", ".join(f"t{i}.c{i} AS o{i}" for i in range(n))
        sql = f"CREATE TABLE m.out_{tag} AS SELECT {items} FROM {frm} WHERE t0.id IN (SELECT id FROM m.f1) AND t1.id IN (SELECT id2 FROM m.f2)"
    else:
        n = g.choice([3, 4, 5])
        sql = ";\n".join(f"INSERT INTO m.t{i} SELECT a{i}, b{i} FROM m.s{g.randrange(3)} JOIN m.s{3 + g.randrange(2)} USING (k)" for i in range(n))
        meta = {f"m.s{i}": ["k"] + [f"a{j}" for j in range(n) if (j + i) % 2 == 0] + [f"b{j}" for j in range(n) if (j + i) % 3 == 0] for i in range(5)} if g.random() < 0.5 else None
    return {"sql": sql, "dialect": dialect, "meta": meta, "cfg": {}, "silent": False, "src": "risky:" + kind}


def generated_inputs(seed: int, n: int) -> list[dict]:
    out = []
    for i in range(n):
        g = stream(seed, f"c11-gen-{i}")
        if i % 3 == 2:
            out.append(risky(g, f"g{i}"))
            continue
        sg = ScriptGen(g, f"g{i}")
        sql = ";\n".join(sg.script(g.choice([2, 3, 4, 5])))
        meta = dict(BASE_META) if g.random() < 0.6 else None
        dialect = g.choice(["ansi", "ansi", "non-validating"])
        # a sibling script over the SAME names (same tag) but a different shape: analysed first in the warm-process world
        g2 = stream(seed, f"c11-gen-{i}-sibling")
        sib = ";\n".join(ScriptGen(g2, f"g{i}").script(g2.choice([2, 3, 4])))
        cfg = {"LATERAL_COLUMN_ALIAS_REFERENCE": True} if stream(seed, f"c11-gen-{i}-cfg").random() < 0.2 else {}
        out.append({"sql": sql, "dialect": dialect, "meta": meta, "cfg": cfg, "silent": False, "src": "generated",
                    "sibling": {"sql": sib, "dialect": dialect, "meta": meta, "cfg": {}, "silent": False, "src": "sibling"}})
    return out


CORE = ["source_tables", "target_tables", "intermediate_tables", "col_tt", "col_ff", "cyto_table", "cyto_column", "str"]


def accessor_program(g) -> list[str]:
    prog = list(canon.ACCESSORS)
    g.shuffle(prog)
    for _ in range(g.choice([2, 3, 5])):
        prog.insert(g.randrange(len(prog) + 1), g.choice(canon.ACCESSORS))
    return prog


def hash_seeds(seed: int, tier: str) -> list[int]:
    master = stream(seed, "c11-hash-seeds")
    n = {"quick": 4, "thorough": 32}[tier]
    hs = [0]
    while len(hs) < n:
        h = master.randrange(1, 2 ** 32 - 1)
        if h not in hs:
            hs.append(h)
    return hs


def known_ids(entries) -> set[str]:
    return {input_id(e["input"]) for e in entries if "input" in e}


def search(pool, tier: str, seed: int, deadline: float, agg: Agg) -> None:
    import sys

    from ..framework import load_known

    mod = sys.modules[__name__]
    skip = known_ids([e for e in load_known(ID)])
    tp = tpcds_inputs()
    if tier == "quick":  # a third of the (heavy) TPC-DS queries per seed
        tp = [x for i, x in enumerate(tp) if (i + seed) % 3 == 0]
    inputs = corpus_inputs() + tp + generated_inputs(seed, {"quick": 270, "thorough": 3000}[tier]) + xdialect_inputs(seed, {"quick": 90, "thorough": 800}[tier]) \
        + project_inputs(seed, {"quick": 12, "thorough": 120}[tier])
    seen = set()
    uniq = []
    for inp in inputs:
        iid = input_id(inp)
        if iid in seen or iid in skip:
            continue
        seen.add(iid)
        uniq.append(inp)
    inputs = uniq
    hs = hash_seeds(seed, tier)
    canonical = list(canon.ACCESSORS)
    cases = []
    jobs = []
    where = []
    for ci, inp in enumerate(inputs):
        g = stream(seed, "c11-prog-" + input_id(inp))
        worlds = []
        heavy = inp["src"].startswith("tpcds")
        for hi, h in enumerate(hs):
            if heavy and tier == "quick" and hi >= 2:
                continue
            # quick: the full accessor list under the first seed, the order-sensitive core under the others
            worlds.append({"hash_seed": h, "prog": canonical if (hi == 0 or tier != "quick") else CORE})
            if tier == "quick" and hi >= 1:
                continue  # quick: a permuted accessor program under the first hash seed only
            worlds.append({"hash_seed": h, "prog": accessor_program(g)})
        if not heavy:
            pre = []
            if inp.get("sibling"):
                pre.append(inp["sibling"])
            pre += list(inp.get("siblings") or [])
            pre += [{k: v for k, v in x.items() if k not in ("sibling", "siblings")} for x in inputs[max(0, ci - (1 if tier == "quick" else 3)):ci]]
            if g.random() < 0.3:
                pre.append({k: v for k, v in inp.items() if k not in ("sibling", "siblings")})  # plain repetition in one process
            if pre:
                worlds.append({"hash_seed": hs[0], "prog": canonical, "prelude": pre})
        inp = {k: v for k, v in inp.items() if k not in ("sibling", "siblings")}
        cases.append({"input": inp, "worlds": worlds})
        for wi, w in enumerate(worlds):
            jobs.append(job(mod, {"hash_seed": w["hash_seed"]}, [{"input": inp, "prog": w["prog"], "prelude": w.get("prelude")}], 240.0))
            where.append((ci, wi))
    agg.planned = len(cases)
    got: dict[int, dict[int, dict]] = {}

    def on_result_for(base):
        def on_result(i: int, r: dict) -> None:
            if not r.get("ok"):
                agg.harness.append((i, r))
                return
            ci, wi = where[base + i]
            got.setdefault(ci, {})[wi] = r["result"]["runs"][0]
        return on_result

    # waves of inputs, so that a budget cut leaves complete cases behind (a case is judged only when every one of
    # its worlds was observed)
    import time as _time

    wave = 10 ** 9 if tier == "quick" else 160  # quick: one wave (every wave re-starts the zygotes)
    starts = {}
    for ji, (ci, _wi) in enumerate(where):
        starts.setdefault(ci // wave, [ji, ji])[1] = ji
    for wv in sorted(starts):
        if _time.monotonic() > deadline or agg.harness:
            break
        lo, hi = starts[wv]
        pool.run(jobs[lo:hi + 1], deadline=deadline, on_result=on_result_for(lo), stop_when=lambda: len(agg.harness) > 0)
    srcs = {}
    for ci, c in enumerate(cases):
        obs = got.get(ci, {})
        if len(obs) != len(c["worlds"]):
            continue  # budget ran out before every world of this input was observed
        rr = judge(c["input"], c["worlds"], [obs[wi] for wi in range(len(c["worlds"]))])
        rr["extra"] = {"observations": len(c["worlds"]), "inputs_" + c["input"]["src"].split(":")[0]: 1}
        if ci % 97 == 0:
            rr["sample"] = {"input": {k: (v if k != "sql" else v[:400]) for k, v in c["input"].items()}, "hash_seeds": hs, "permuted_program": c["worlds"][1]["prog"]}
        agg.logdig[ci] = rr["log_digest"]
        agg.add(ci, {"hash_seed": hs[0]}, rr)


# ---------------------------------------------------------------------------
# pinned inputs, known findings, shrinking


def pinned(entries):
    out = []
    for e in entries:
        if "input" not in e:
            continue
        hs = e.get("hash_seeds") or [0, 1, 2, 3, 4, 5]
        worlds = [{"hash_seed": h, "prog": list(canon.ACCESSORS)} for h in hs]
        out.append((e, {"hash_seed": 0}, {"input": e["input"], "worlds": worlds}))
    return out


def match_known(spec, violation, entries):
    iid = input_id(spec["input"])
    for e in entries:
        if "input" in e and input_id(e["input"]) == iid:
            return e
    return None


def shrink_candidates(spec: dict) -> list[dict]:
    out = []
    inp = spec["input"]
    # fewer statements
    parts = [p for p in inp["sql"].split(";\n") if p.strip()]
    if len(parts) > 1:
        for i in range(len(parts)):
            s = json.loads(json.dumps(spec))
            s["input"]["sql"] = ";\n".join(parts[:i] + parts[i + 1:])
            out.append(s)
    # shorter accessor programs (keep the accessor that differs reachable: try dropping each)
    for wi, w in enumerate(spec["worlds"]):
        if len(w["prog"]) > 1:
            for k in range(len(w["prog"])):
                s = json.loads(json.dumps(spec))
                del s["worlds"][wi]["prog"][k]
                out.append(s)
    for wi, w in enumerate(spec["worlds"]):
        if w.get("prelude") and len(w["prelude"]) > 1:
            for k in range(len(w["prelude"])):
                s = json.loads(json.dumps(spec))
                del s["worlds"][wi]["prelude"][k]
                out.append(s)
    if inp.get("meta"):
        for t in list(inp["meta"]):
            s = json.loads(json.dumps(spec))
            del s["input"]["meta"][t]
            if not s["input"]["meta"]:
                s["input"]["meta"] = None
            out.append(s)
    return out
