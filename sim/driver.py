"""Batch driver: keeps up to N zygotes busy, one forked child per job.

A *job* is a dict
    {"key": {"hash_seed": int, "env": {..pre-import env..}},
     "module": "sim.props.c15", "fn": "execute", "arg": {...}, "wall_s": 60}
Jobs with the same key share zygotes.  Results come back in job order.
``ProcessPoolExecutor`` is deliberately not used: the driver owns the pipes, a
dead or hung child never hangs the batch, and a killed child is a harness
error.
"""
from __future__ import annotations

import json
import os
import shutil
import subprocess
import tempfile
import threading
import time
from typing import Callable, Optional

from .util import GUARD, PYTHON, REPO_DIR, VERIF_DIR, jdump

ZYGOTE = os.path.join(VERIF_DIR, "sim", "zygote.py")


class Zygote:
    def __init__(self, key: dict, preload: list[str], workdir: str, tag: str):
        self.key = key
        env = {
            "PATH": os.environ.get("PATH", "/usr/bin:/bin"),
            "PYTHONPATH": f"{REPO_DIR}:{VERIF_DIR}",
            "PYTHONHASHSEED": str(key.get("hash_seed", 0)),
            "PYTHONDONTWRITEBYTECODE": "1",
            GUARD: "1",
            "HOME": os.path.join(workdir, "home"),
            "XDG_CONFIG_HOME": os.path.join(workdir, "home"),
            "VERIF_REPO": REPO_DIR,
            "VERIF_WORK": workdir,
            "LANG": "C.UTF-8",
        }
        for k, v in (key.get("env") or {}).items():
            env[k] = v
        self.log = open(os.path.join(workdir, f"zygote-{tag}.log"), "ab")
        self.p = subprocess.Popen(
            [PYTHON, "-u", ZYGOTE] + preload,
            env=env,
            cwd=os.path.join(workdir, "cwd"),
            stdin=subprocess.PIPE,
            stdout=subprocess.PIPE,
            stderr=self.log,
        )
        line = self.p.stdout.readline().decode()
        if not line.startswith("READY"):
            raise RuntimeError(f"zygote failed to start: {line!r} (see {self.log.name})")

    def call(self, job: dict) -> dict:
        self.p.stdin.write((json.dumps(job) + "\n").encode())
        self.p.stdin.flush()
        line = self.p.stdout.readline()
        if not line:
            return {"ok": False, "error": "zygote-died"}
        return json.loads(line)

    def close(self) -> None:
        try:
            self.p.stdin.write(b'{"quit":true}\n')
            self.p.stdin.flush()
            self.p.stdin.close()
        except Exception:
            pass
        try:
            self.p.wait(timeout=5)
        except Exception:
            self.p.kill()
            self.p.wait()
        self.log.close()


class Pool:
    def __init__(self, workers: Optional[int] = None, preload: Optional[list[str]] = None):
        self.workers = workers or int(os.environ.get("VERIF_WORKERS", os.cpu_count() or 4))
        self.preload = preload or []
        self.workdir = tempfile.mkdtemp(prefix="verif-sim-")
        os.makedirs(os.path.join(self.workdir, "home"), exist_ok=True)
        os.makedirs(os.path.join(self.workdir, "cwd"), exist_ok=True)
        self._ztag = 0
        self.zygote_starts = 0

    def close(self) -> None:
        shutil.rmtree(self.workdir, ignore_errors=True)

    def __enter__(self):
        return self

    def __exit__(self, *a):
        self.close()

    def logs(self) -> str:
        out = []
        for f in sorted(os.listdir(self.workdir)):
            if f.endswith(".log"):
                try:
                    txt = open(os.path.join(self.workdir, f), "rb").read().decode(errors="replace")
                except OSError:
                    continue
                if txt.strip():
                    out.append(f"--- {f} ---\n{txt[-4000:]}")
        return "\n".join(out)

    def run(
        self,
        jobs: list[dict],
        deadline: Optional[float] = None,
        on_result: Optional[Callable[[int, dict], None]] = None,
        stop_when: Optional[Callable[[], bool]] = None,
    ) -> list[Optional[dict]]:
        """Executes jobs; returns results aligned with ``jobs`` (None = not run
        because the deadline passed or ``stop_when`` said so)."""
        n = len(jobs)
        results: list[Optional[dict]] = [None] * n
        if n == 0:
            return results
        # group by key, keep job order inside the groups and group order by first job
        groups: dict[str, list[int]] = {}
        for i, j in enumerate(jobs):
            groups.setdefault(jdump(j.get("key", {})), []).append(i)
        W = max(1, min(self.workers, n))
        chunks: list[list[int]] = []
        for k, idxs in groups.items():
            per = max(1, -(-len(idxs) // (W * 4)))
            for s in range(0, len(idxs), per):
                chunks.append(idxs[s : s + per])
        # interleave so that early job indices are served first
        chunks.sort(key=lambda c: c[0])
        ckeys = [jdump(jobs[c[0]].get("key", {})) for c in chunks]
        lock = threading.Lock()
        state = {"next": 0, "stop": False}

        def take(cur_key: Optional[str]) -> Optional[list[int]]:
            with lock:
                if state["stop"]:
                    return None
                if deadline is not None and time.monotonic() > deadline:
                    return None
                if stop_when is not None and stop_when():
                    return None
                # prefer a chunk with the key the worker already has a zygote for
                first = match = None
                for ci in range(state["next"], len(chunks)):
                    c = chunks[ci]
                    if c is None:
                        if first is None:
                            state["next"] = ci + 1
                        continue
                    if first is None:
                        first = ci
                    if cur_key is None:
                        break
                    if ckeys[ci] == cur_key:
                        match = ci
                        break
                    if ci - first > 8 * W:
                        break
                pick = match if match is not None else first
                if pick is None:
                    return None
                c = chunks[pick]
                chunks[pick] = None
                return c

        def worker(wi: int) -> None:
            z: Optional[Zygote] = None
            zkey: Optional[str] = None
            try:
                while True:
                    c = take(zkey)
                    if c is None:
                        break
                    k = jdump(jobs[c[0]].get("key", {}))
                    if z is None or zkey != k:
                        if z is not None:
                            z.close()
                        with lock:
                            self._ztag += 1
                            tag = f"{wi}-{self._ztag}"
                            self.zygote_starts += 1
                        z = Zygote(jobs[c[0]].get("key", {}), self.preload, self.workdir, tag)
                        zkey = k
                    for i in c:
                        if deadline is not None and time.monotonic() > deadline:
                            break
                        if stop_when is not None and stop_when():
                            break
                        job = dict(jobs[i])
                        job["job_id"] = i
                        r = z.call(job)
                        if r.get("error") == "zygote-died":
                            z.close()
                            z = Zygote(jobs[i].get("key", {}), self.preload, self.workdir, f"{wi}-r")
                        results[i] = r
                        if on_result is not None:
                            with lock:
                                on_result(i, r)
            except BaseException as e:  # pragma: no cover
                with lock:
                    state["stop"] = True
                    state["error"] = repr(e)
            finally:
                if z is not None:
                    z.close()

        ths = [threading.Thread(target=worker, args=(w,), daemon=True) for w in range(W)]
        for t in ths:
            t.start()
        for t in ths:
            t.join()
        if "error" in state:
            raise RuntimeError("driver worker failed: " + state["error"] + "\n" + self.logs())
        return results
