"""Zygote: one interpreter per (PYTHONHASHSEED, pre-import environment).

Imports sqllineage once (the import-time seam S4 sees exactly the environment
the driver chose), then forks one child per job, so every simulated run starts
from the same pristine process image (S10).  Protocol: one JSON job per line on
stdin, one JSON answer per line on stdout.  A child that exceeds its wall limit
is SIGKILLed and reported as a harness error -- never as a pass.
"""
import importlib
import json
import os
import select
import signal
import sys
import time
import traceback


def _child(job: dict, wfd: int) -> None:
    try:
        import faulthandler

        faulthandler.enable()
        faulthandler.dump_traceback_later(max(1.0, float(job.get("wall_s", 60)) - 2.0), exit=False)
        mod = importlib.import_module(job["module"])
        res = getattr(mod, job["fn"])(job["arg"])
        out = {"ok": True, "result": res}
    except BaseException:
        out = {"ok": False, "error": "exception", "trace": traceback.format_exc()}
    data = (json.dumps(out, default=str)).encode()
    off = 0
    while off < len(data):
        off += os.write(wfd, data[off : off + 65536])
    os.close(wfd)
    os._exit(0)


def main() -> None:
    preload = [m for m in sys.argv[1:] if m]
    import warnings

    warnings.simplefilter("ignore")
    from sim.sched import install_lock_seam

    install_lock_seam()  # before sqllineage is imported: module-level locks become scheduling points
    for m in preload:
        importlib.import_module(m)
    sys.stdout.write("READY %s\n" % os.environ.get("PYTHONHASHSEED", "?"))
    sys.stdout.flush()
    for line in sys.stdin:
        line = line.strip()
        if not line:
            continue
        job = json.loads(line)
        if job.get("quit"):
            break
        r, w = os.pipe()
        t0 = time.monotonic()
        pid = os.fork()
        if pid == 0:
            os.close(r)
            _child(job, w)
        os.close(w)
        wall = float(job.get("wall_s", 60))
        chunks = []
        killed = False
        while True:
            left = wall - (time.monotonic() - t0)
            if left <= 0:
                killed = True
                break
            rl, _, _ = select.select([r], [], [], left)
            if not rl:
                killed = True
                break
            b = os.read(r, 1 << 16)
            if not b:
                break
            chunks.append(b)
        if killed:
            try:
                os.kill(pid, signal.SIGKILL)
            except ProcessLookupError:
                pass
        os.close(r)
        _, status = os.waitpid(pid, 0)
        if killed:
            out = {"ok": False, "error": "timeout", "wall_s": wall}
        else:
            try:
                out = json.loads(b"".join(chunks))
            except Exception:
                out = {"ok": False, "error": "crash", "status": status}
        out["job_id"] = job.get("job_id")
        out["child_s"] = round(time.monotonic() - t0, 4)
        sys.stdout.write(json.dumps(out) + "\n")
        sys.stdout.flush()


if __name__ == "__main__":
    main()
