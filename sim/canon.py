"""Canonical, JSON-able dumps of every public accessor of a LineageRunner.

The only latitude granted (property C11): generated names of anonymous
sub-queries ``subquery_<int>`` are rewritten to ``subquery_?`` and the lists
that contain them are re-sorted *after* the rewrite (sorting before rewriting
produces spurious differences -- found at design time)."""
from __future__ import annotations

import contextlib
import io
import json
import re

from .sched import no_preempt

_SUBQ = re.compile(r"subquery_-?\d+")
STRICT_ORDER = True

ACCESSORS = [
    "statements",
    "source_tables",
    "target_tables",
    "intermediate_tables",
    "col_tt",
    "col_tf",
    "col_ft",
    "col_ff",
    "cyto_table",
    "cyto_column",
    "str",
    "print_table",
    "print_column",
]


def _rw(s: str) -> str:
    return _SUBQ.sub("subquery_?", s)


def _rw_obj(o):
    if isinstance(o, str):
        return _rw(o)
    if isinstance(o, list):
        return [_rw_obj(x) for x in o]
    if isinstance(o, tuple):
        return [_rw_obj(x) for x in o]
    if isinstance(o, dict):
        return {k: _rw_obj(v) for k, v in o.items()}
    return o


def _sorted_json(items):
    return sorted(items, key=lambda x: json.dumps(x, sort_keys=True))


def _cyto(lst):
    out = []
    for el in lst:
        d = dict(el.get("data", {}))
        if "source" in d and "target" in d:
            d.pop("id", None)  # edge ids are positional
        out.append(_rw_obj(d))
    return _sorted_json(out)


def _lines(text: str):
    """Summary text: rewrite sub-query names; table lines inside each section are
    already sorted by the library by printed name, which the rewrite may perturb,
    so sections are re-sorted line-wise where they are lists of names."""
    return _rw(text)


def call(runner, name: str):
    """Returns the canonical value of one accessor, or {'exception': type}."""
    from sqllineage.utils.constant import LineageLevel

    try:
        if name == "statements":
            return list(runner.statements())
        if name in ("source_tables", "target_tables", "intermediate_tables"):
            # the library returns these lists sorted by printed name: the order is part of the answer
            # (anonymous sub-queries never appear among tables, so no rewrite can perturb it)
            return [_rw(str(t)) for t in getattr(runner, name)]
        if name.startswith("col_"):
            a, b = name[4] == "t", name[5] == "t"
            paths = runner.get_column_lineage(exclude_path_ending_in_subquery=a, exclude_subquery_columns=b)
            raw = [[str(c) for c in p] for p in paths]
            if STRICT_ORDER and not any(_SUBQ.search(c) for p in raw for c in p):
                return raw  # no generated name involved: the library's own order is part of the answer
            return sorted([_rw(c) for c in p] for p in raw)
        if name == "cyto_table":
            return _cyto(runner.to_cytoscape())
        if name == "cyto_column":
            return _cyto(runner.to_cytoscape(LineageLevel.COLUMN))
        if name == "str":
            return _lines(str(runner))
        if name == "print_table":
            buf = io.StringIO()
            # sys.stdout is process-global: redirecting it is made atomic w.r.t. the simulated schedule
            with no_preempt(), contextlib.redirect_stdout(buf):
                runner.print_table_lineage()
            return _lines(buf.getvalue())
        if name == "print_column":
            buf = io.StringIO()
            with no_preempt(), contextlib.redirect_stdout(buf):
                runner.print_column_lineage()
            lines = buf.getvalue().splitlines()
            if STRICT_ORDER and not any(_SUBQ.search(l) for l in lines):
                return lines
            return sorted(_rw(l) for l in lines)
        raise ValueError(name)
    except Exception as e:  # library and dependency errors are part of the observable result
        return {"exception": type(e).__name__}


def dump(runner, accessors=None) -> dict:
    return {a: call(runner, a) for a in (accessors or ACCESSORS)}
