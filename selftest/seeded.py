#!/venv/bin/python
"""Confirms and evaluates the independently written breaking changes under /verif/seeded/<id>/.
For each: a scratch worktree of /repo's HEAD (under a temp dir, removed afterwards) gets the patch;
  (1) demo.py must exit 0 without the patch and non-zero with it; (2) the repo's suite must pass with it;
  (3) the property's quick check pointed at the patched copy (VERIF_REPO) must report a VIOLATION.
Writes/updates meta.json in each directory.  Usage: selftest/seeded.py [ids...] [--no-suite]"""
import json, os, shutil, subprocess, sys, tempfile, time

VERIF = os.path.dirname(os.path.dirname(os.path.abspath(__file__)))
SUITE = ["/venv/bin/python", "-m", "pytest", "-q", "-p", "no:cacheprovider", "--timeout=900", "-x",
         "--deselect", "tests/core/test_drawing.py::test_handler",
         "--deselect", "tests/sql/column/test_column_select_column_dialect_specific.py::test_tsql_assignment_operator",
         "--deselect", "tests/sql/table/multiple_statements/test_tmp_table.py::test_create_after_drop",
         "--deselect", "tests/sql/table/test_create.py::test_create_if_not_exist"]


def sh(cmd, cwd=None, env=None, timeout=1800):
    p = subprocess.run(cmd, cwd=cwd, env=env, capture_output=True, text=True, timeout=timeout)
    return p.returncode, p.stdout + p.stderr


def main():
    args = [a for a in sys.argv[1:] if not a.startswith("--")]
    suite = "--no-suite" not in sys.argv
    ids = args or sorted(os.listdir(os.path.join(VERIF, "seeded")))
    root = tempfile.mkdtemp(prefix="verif-seedchk-")
    env_clean = {k: v for k, v in os.environ.items() if k not in ("SQLLINEAGE_VERIF", "PYTHONPATH")}
    try:
        for sid in ids:
            d = os.path.join(VERIF, "seeded", sid)
            if not os.path.isfile(os.path.join(d, "patch.diff")):
                continue
            prop = sid.split("-")[0]
            wt = os.path.join(root, sid)
            sh(["git", "-C", "/repo", "worktree", "add", "--detach", wt, "HEAD"])
            try:
                os.makedirs(os.path.join(wt, "_seeded"), exist_ok=True)
                shutil.copy(os.path.join(d, "demo.py"), os.path.join(wt, "_seeded", "demo.py"))
                env_demo = dict(env_clean, PYTHONPATH=wt)  # (round 11 demos expect the tree on PYTHONPATH; older ones insert cwd themselves)
                rc0, out0 = sh(["/venv/bin/python", "_seeded/demo.py"], cwd=wt, env=env_demo)
                rca, outa = sh(["git", "apply", os.path.join(d, "patch.diff")], cwd=wt)
                rc1, out1 = sh(["/venv/bin/python", "_seeded/demo.py"], cwd=wt, env=env_demo)
                srcs = None
                if suite:
                    rcs, outs = sh(SUITE, cwd=wt, env=env_clean)
                    srcs = rcs == 0
                t0 = time.time()
                env = dict(os.environ, VERIF_REPO=wt, VERIF_MIN_BUDGET_S=os.environ.get("VERIF_MIN_BUDGET_S", "20"), VERIF_NO_EVIDENCE="1")
                rcc, outc = sh([os.path.join(VERIF, "check"), prop, "--tier", "quick"], env=env)
                vio = [l for l in outc.splitlines() if l.startswith("violation class=")]
                import re as _re
                mm = _re.search(r"runs=(\d+)/(\d+).*violations=(\d+)", outc)
                margin = {"runs_executed": int(mm.group(1)), "planned": int(mm.group(2)), "violating_runs_before_stop": int(mm.group(3))} if mm else {}
                others = {}
                if not (rcc == 1 and vio) and "--others" in sys.argv:
                    for op in ["C12", "C11", "C15", "C03", "C04", "C14", "C17"]:
                        if op == prop:
                            continue
                        rco, outo = sh([os.path.join(VERIF, "check"), op, "--tier", "quick"], env=env)
                        vo = [l for l in outo.splitlines() if l.startswith("violation class=")]
                        others[op] = {"exit": rco, "violation": [v[:300] for v in vo[:1]]}
                        print("   other check", op, "exit", rco, vo[:1], flush=True)
                        if rco == 1:
                            break
                meta_p = os.path.join(d, "meta.json")
                meta = json.load(open(meta_p)) if os.path.exists(meta_p) else {}
                if srcs is None:  # --no-suite: keep what an earlier full confirmation recorded
                    srcs = (meta.get("confirmed") or {}).get("suite_passes_with_change")
                meta.update({
                    "id": sid, "property": prop,
                    "confirmed": {"patch_applies": rca == 0, "demo_exit_unchanged": rc0, "demo_exit_changed": rc1,
                                  "suite_passes_with_change": srcs, "what_i_ran": "selftest/seeded.py: scratch worktree of /repo HEAD; demo.py before/after `git apply patch.diff`; repo suite with the 4 baseline failures deselected; ./check <prop> --tier quick with VERIF_REPO=<patched worktree>"},
                    "detected_by_quick_check": rcc == 1 and bool(vio), "check_exit": rcc, "check_wall_s": round(time.time() - t0, 1),
                    "violation": [v[:400] for v in vio[:2]], "margin": margin,
                })
                if others:
                    meta["other_checks"] = others
                json.dump(meta, open(meta_p, "w"), indent=1)
                print(sid, "applies" if rca == 0 else "PATCH FAILS", f"demo {rc0}->{rc1}", f"suite_ok={srcs}", "DETECTED" if meta["detected_by_quick_check"] else f"MISSED(exit {rcc})", margin, [v[:160] for v in vio[:1]], flush=True)
                if rcc == 2:
                    print(outc[-2000:])
            finally:
                sh(["git", "-C", "/repo", "worktree", "remove", "--force", wt])
    finally:
        shutil.rmtree(root, ignore_errors=True)
        sh(["git", "-C", "/repo", "worktree", "prune"])


if __name__ == "__main__":
    main()
