#!/venv/bin/python
"""Sensitivity self-test: every mutant of selftest/mutants.py is applied to a scratch copy of /repo
(under a temp dir, removed afterwards); the repository's own suite must still pass there (mutants the
suite kills are recorded and dropped); then the property's quick check, pointed at the copy with
VERIF_REPO, must report a VIOLATION.  Usage: selftest/run.py [--no-suite] [--props C12,C15] [ids...]"""
import json, os, shutil, subprocess, sys, tempfile, time
from concurrent.futures import ThreadPoolExecutor

HERE = os.path.dirname(os.path.abspath(__file__))
VERIF = os.path.dirname(HERE)
sys.path.insert(0, HERE)
from mutants import M  # noqa
from mut import apply, scratch_copy  # noqa

BASELINE = json.load(open("/root/.vp/BASELINE.json")) if os.path.exists("/root/.vp/BASELINE.json") else None


def run_suite(d):
    p = subprocess.run(["/venv/bin/python", "-m", "pytest", "-q", "-p", "no:cacheprovider", "--timeout=900", "-x", "-q", "-rf",
                        "--deselect", "tests/core/test_drawing.py::test_handler",
                        "--deselect", "tests/sql/column/test_column_select_column_dialect_specific.py::test_tsql_assignment_operator",
                        "--deselect", "tests/sql/table/multiple_statements/test_tmp_table.py::test_create_after_drop",
                        "--deselect", "tests/sql/table/test_create.py::test_create_if_not_exist"],
                       cwd=d, capture_output=True, text=True, env={k: v for k, v in os.environ.items() if k != "SQLLINEAGE_VERIF"})
    failed = [l.split()[1] for l in p.stdout.splitlines() if l.startswith("FAILED ")]
    tail = (failed[0] if failed else (p.stdout.strip().splitlines()[-1] if p.stdout.strip() else ""))
    return p.returncode == 0, tail


def main():
    args = sys.argv[1:]
    suite = "--no-suite" not in args
    args = [a for a in args if a != "--no-suite"]
    props = None
    if "--props" in args:
        i = args.index("--props")
        props = set(args[i + 1].split(","))
        del args[i:i + 2]
    muts = [x for x in M if (not args or x["id"] in args) and (props is None or x["property"] in props)]
    root = tempfile.mkdtemp(prefix="verif-mut-")
    results = []
    try:
        dirs = {}
        for mu in muts:
            d = os.path.join(root, mu["id"])
            scratch_copy(d)
            apply(mu["id"], d)
            dirs[mu["id"]] = d
        suite_ok = {}
        if suite:
            with ThreadPoolExecutor(max_workers=12) as ex:
                for mu, (ok, tail) in zip(muts, ex.map(lambda m_: run_suite(dirs[m_["id"]]), muts)):
                    suite_ok[mu["id"]] = (ok, tail)
                    print(f"suite {mu['id']}: {'passes' if ok else 'fails (will be re-run alone)'} ({tail})", flush=True)
            # a failure under 12 parallel suites may be load-induced: confirm each one alone
            for mu in muts:
                if suite_ok[mu["id"]][0] is False:
                    ok, tail = run_suite(dirs[mu["id"]])
                    suite_ok[mu["id"]] = (ok, tail)
                    print(f"suite {mu['id']} alone: {'passes' if ok else 'KILLED BY SUITE'} ({tail})", flush=True)
        for mu in muts:
            ok_suite = suite_ok.get(mu["id"], (None, ""))[0]
            if ok_suite is False:
                results.append({"id": mu["id"], "property": mu["property"], "note": mu["note"], "suite_passes": False, "killed_by": suite_ok[mu["id"]][1], "detected": None, "expect": mu.get("expect", "detect")})
                continue
            t0 = time.time()
            env = dict(os.environ, VERIF_REPO=dirs[mu["id"]], VERIF_MIN_BUDGET_S="5", VERIF_NO_EVIDENCE="1")
            p = subprocess.run([os.path.join(VERIF, "check"), mu["property"], "--tier", "quick"], capture_output=True, text=True, env=env)
            vio = [l for l in p.stdout.splitlines() if l.startswith("VIOLATION")]
            cls = [l[:200] for l in p.stdout.splitlines() if l.startswith("violation class=")]
            det = p.returncode == 1 and bool(vio)
            results.append({"id": mu["id"], "property": mu["property"], "note": mu["note"], "suite_passes": ok_suite, "detected": det, "expect": mu.get("expect", "detect"),
                            "exit": p.returncode, "violation": cls[:2], "wall_s": round(time.time() - t0, 1)})
            print(f"check {mu['id']} ({mu['property']}): {'DETECTED' if det else 'MISSED exit=%d' % p.returncode} {cls[:1]} {time.time() - t0:.0f}s", flush=True)
            if p.returncode == 2:
                print(p.stdout[-1500:])
    finally:
        shutil.rmtree(root, ignore_errors=True)
    out = os.path.join(VERIF, "selftest", "sensitivity_results.json")
    prev = {}
    if os.path.exists(out):
        prev = {r["id"]: r for r in json.load(open(out))["results"]}
    for r in results:
        prev[r["id"]] = r
    json.dump({"results": [prev[k] for k in sorted(prev)]}, open(out, "w"), indent=1)
    missed = [r["id"] for r in results if r["detected"] is False and r.get("expect", "detect") == "detect"]
    alarms = [r["id"] for r in results if r["detected"] is True and r.get("expect") == "miss"]
    print("alarms on controls:", alarms)
    print("missed:", missed)
    return 1 if missed else 0


if __name__ == "__main__":
    sys.exit(main())
