"""Sensitivity mutants (DESIGN.md Appendix A): small, realistic edits of /repo applied ONLY to
scratch copies.  Each entry: id, property, file, old text, new text (exact, single occurrence)."""

M = []


def m(id, prop, file, old, new, note="", more=(), expect="detect"):
    """expect="miss": a control - an edit that does not break the property as stated (equivalent, or inside a zone the
    statement leaves open); the check staying quiet on it is the wanted outcome."""
    M.append({"id": id, "property": prop, "edits": [(file, old, new)] + list(more), "note": note, "expect": expect})


# ---------------------------------------------------------------- C15
m("m15a", "C15", "sqllineage/config.py",
  "            self._thread_config.pop(self.get_ident())\n",
  "            self._thread_config.clear()\n",
  "__exit__ clears every thread's overrides")
m("m15b", "C15", "sqllineage/config.py",
  "                value := self._thread_config.get(self.get_ident(), {}).get(item)\n            ) is not None:",
  "                value := self._thread_config.get(self.get_ident(), {}).get(item)\n            ):",
  "falsy override falls through to the environment")
m("m15c", "C15", "sqllineage/config.py",
  "        return threading.get_ident()\n",
  "        return os.getpid()\n",
  "identifier ignores the thread")
m("m15d", "C15", "sqllineage/config.py",
  "        if thread_id in self._thread_in_context_manager:\n            self._thread_in_context_manager.remove(thread_id)\n",
  "        if thread_id in self._thread_in_context_manager and exc_type is None:\n            self._thread_in_context_manager.remove(thread_id)\n",
  "in-scope mark left behind when the body raised")
m("m15e", "C15", "sqllineage/config.py",
  "                parsed[key] = self.parse_value(value, self.config[key][0])\n",
  "                parsed[key] = self.parse_value(value, self.config[key][0])\n                self._thread_config.setdefault(thread_id, {})[key] = parsed[key]\n",
  "stores keys before all are validated (the repaired defect, reintroduced)")
m("m15f", "C15", "sqllineage/config.py",
  "                value = int(value) != 0\n",
  "                value = int(value) > 0\n",
  "integers coerced by > 0 instead of != 0 (negative values flip)")
m("m15g", "C15", "sqllineage/config.py",
  "            self._thread_config.pop(self.get_ident())\n",
  "            self._thread_config[self.get_ident()] = {}\n            if exc_type is not None:\n                return\n",
  "exit by exception skips removing the in-scope mark (early return)")
m("m15h", "C15", "sqllineage/config.py",
  "        if thread_id in self._thread_in_context_manager:\n            raise ConfigException(\"SQLLineageConfig context manager is not reentrant\")\n",
  "",
  "nested call no longer refused before storing (half of the repair removed)")

# ---------------------------------------------------------------- C12
m("m12a", "C12", "sqllineage/runner.py",
  "        with self._metadata_provider.session() as session:\n            stmt_holders = []",
  "        session = self._metadata_provider.session()\n        if True:\n            stmt_holders = []",
  "session without 'with': never deregistered")
m("m12b", "C12", "sqllineage/core/metadata_provider.py",
  "    def __init__(self) -> None:\n        self._session_metadata: dict[str, list[str]] = {}\n",
  "    _session_metadata: dict[str, list[str]] = {}\n\n    def __init__(self) -> None:\n        pass\n",
  "session metadata promoted to a class attribute (shared by all providers)")
m("m12c", "C12", "sqllineage/core/metadata_provider.py",
  "    def __exit__(self, exc_type, exc_val, exc_tb):\n        self.metadata_provider.deregister_session_metadata()\n",
  "    def __exit__(self, exc_type, exc_val, exc_tb):\n        if exc_type is None:\n            self.metadata_provider.deregister_session_metadata()\n",
  "deregistration only on success")
m("m12d", "C12", "sqllineage/core/parser/sqlfluff/analyzer.py",
  "        if sql in self.tsql_split_cache:\n",
  "        if (_k := (sql, self._sqlfluff_config.get(\"dialect\"))) in _HOLDER_CACHE:\n            return _HOLDER_CACHE[_k]\n        if sql in self.tsql_split_cache:\n",
  "module-level holder cache keyed by statement text",
  more=[("sqllineage/core/parser/sqlfluff/analyzer.py",
         "                    return StatementLineageHolder.of(lineage_holder)\n",
         "                    _HOLDER_CACHE[_k] = StatementLineageHolder.of(lineage_holder)\n                    return _HOLDER_CACHE[_k]\n"),
        ("sqllineage/core/parser/sqlfluff/analyzer.py",
         "class SqlFluffLineageAnalyzer(LineageAnalyzer):\n",
         "_HOLDER_CACHE: dict = {}\n\n\nclass SqlFluffLineageAnalyzer(LineageAnalyzer):\n")])
m("m12e", "C12", "sqllineage/core/metadata/dummy.py",
  "    def __bool__(self):\n        return len(self.metadata) > 0\n",
  "    def __bool__(self):\n        return len(self.metadata) > 0\n\n    def register_session_metadata(self, table, columns) -> None:\n        super().register_session_metadata(table, columns)\n        self.metadata.setdefault(str(table), [c.raw_name for c in columns])\n",
  "registered session columns are also cached into the provider's own metadata dict")

# ---------------------------------------------------------------- C03
m("m03a", "C03", "sqllineage/core/holders.py",
  "                    if g.has_node(table) and g.degree[table] == 0:\n",
  "                    if g.has_node(table) and g.in_degree[table] == 0:\n",
  "DROP removes a table that still has outgoing lineage")
m("m03b", "C03", "sqllineage/core/holders.py",
  "                    for source, target in itertools.product(read, write):\n                        g.add_edge(source, target, type=EdgeType.LINEAGE)\n",
  "                    for source, target in itertools.product(read, write):\n                        g.add_edge(source, target, type=EdgeType.LINEAGE)\n                    if len(read) > 1:\n                        nx.set_node_attributes(\n                            g, {table: True for table in read}, NodeTag.SOURCE_ONLY\n                        )\n",
  "source-only tag applied although the statement writes (joins only)")
m("m03c", "C03", "sqllineage/core/holders.py",
  "        intermediate_tables -= self.__retrieve_tag_tables(NodeTag.SELFLOOP)\n",
  "",
  "self-loop tables no longer subtracted from intermediate")
m("m03d", "C03", "sqllineage/core/holders.py",
  "                    for source, target in itertools.product(read, write):\n",
  "                    for source, target in zip(sorted(read, key=str), itertools.cycle(write)):\n                        if g.has_edge(target, source):\n                            continue\n",
  "lineage edge skipped when the reverse edge already exists (cycle avoidance)")
m("m03e", "C03", "sqllineage/core/holders.py",
  "                    g.remove_edge(table_new, table_new)\n                    if g.degree[table_new] == 0:\n",
  "                    g.remove_edge(table_new, table_new)\n                    if g.degree[table_new] <= 1:\n",
  "RENAME drops the renamed table when it has a single lineage edge")
m("m03f", "C03", "sqllineage/core/holders.py",
  "                    if g.has_node(table) and g.degree[table] == 0:\n",
  "                    if g.has_node(table) and g.out_degree[table] == 0:\n",
  "DROP removes a pure target although lineage was wired to it")
m("m03g", "C03", "sqllineage/core/holders.py",
  "                elif len(read) == 0 and len(write) > 0:\n",
  "                elif len(read) == 0 and len(write) > 0 and not any(g.degree[t] for t in write):\n",
  "target-only tag skipped when the table is already wired")
m("m03h", "C03", "sqllineage/core/holders.py",
  "        source_tables |= self._selfloop_tables\n",
  "        source_tables |= {t for t in self._selfloop_tables if self.table_lineage_graph.in_degree[t] == 1}\n",
  "self-loop table with another incoming edge no longer counted as source")
m("m03i", "C03", "sqllineage/core/holders.py",
  "                if len(read) > 0 and len(write) == 0:\n",
  "                if len(read) > 0 and len(write) == 0 and not any(g.in_degree[t] for t in read):\n",
  "source-only tag skipped for a table that already has incoming lineage")

# ---------------------------------------------------------------- C04
m("m04a", "C04", "sqllineage/runner.py",
  "                        session.register_session_metadata(tgt_table, tgt_columns)\n",
  "                        if len(stmt_holders) == 0:\n                            session.register_session_metadata(tgt_table, tgt_columns)\n",
  "only the first statement teaches the session")
m("m04b", "C04", "sqllineage/runner.py",
  "                    tgt_table = next(iter(write))\n",
  "                    tgt_table = next(iter(stmt_holder.read), None) or next(iter(write))\n",
  "registers the columns against the first read table")
m("m04c", "C04", "sqllineage/core/holders.py",
  "                if g.has_edge(parent, src_col):\n",
  "                if g.has_edge(parent, src_col) and not isinstance(parent, Table):\n",
  "late resolution no longer finds the column of a table created by an earlier statement in the graph")
m("m04d", "C04", "sqllineage/core/metadata_provider.py",
  "        self._session_metadata[str(table)] = [c.raw_name for c in columns]\n",
  "        self._session_metadata[table.raw_name] = [c.raw_name for c in columns]\n",
  "session keyed by bare table name (lookups use the qualified name)")
m("m04e", "C04", "sqllineage/core/holders.py",
  "                node for node in target_columns if isinstance(node.parent, Table)\n            }\n",
  "                node for node in target_columns if node.parent is not None\n            }\n",
  "path leaves no longer restricted to table columns")
m("m04f", "C04", "sqllineage/core/metadata_provider.py",
  "        if (key := str(table)) in self._session_metadata:\n            cols = self._session_metadata[key]\n",
  "        if (key := str(table)) in self._session_metadata and not self._get_table_columns(str(table.schema), table.raw_name, **kwargs):\n            cols = self._session_metadata[key]\n",
  "session consulted only when the provider itself knows nothing (fine), but evaluated eagerly - extra provider traffic only")
m("m04g", "C04", "sqllineage/core/holders.py",
  "            g = nx.compose(g, holder.graph)\n            if holder.drop:\n",
  "            g = nx.compose(holder.graph, g) if len(holder.write) > 1 else nx.compose(g, holder.graph)\n            if holder.drop:\n",
  "benign-looking compose order change (no effect expected: equivalent mutant control)", expect="miss")
m("m04h", "C04", "sqllineage/core/holders.py",
  "            if new_column in target_columns or src_col.raw_name == \"*\":\n                continue\n",
  "            if new_column in target_columns or src_col.raw_name == \"*\":\n                continue\n            if len(src_table_columns) >= 3 and src_col is src_table_columns[-1]:\n                continue\n",
  "wildcard expansion from session drops some columns")
m("m04j", "C04", "sqllineage/runner.py",
  "                stmt_holders.append(stmt_holder)\n",
  "                else:\n                    self._metadata_provider.deregister_session_metadata()\n                stmt_holders.append(stmt_holder)\n",
  "a statement that writes nothing (bare SELECT) makes the session forget what it learned")
m("m04k", "C04", "sqllineage/core/holders.py",
  "            if len(src_cols) == 0 and bool(metadata_provider):\n",
  "            if bool(metadata_provider):\n",
  "metadata consulted although the graph already resolved the column (only differs when two candidates define the column: a zone the statement leaves open)", expect="miss")
m("m04p", "C04", "sqllineage/runner.py",
  "                        tgt_columns := stmt_holder.get_table_columns(tgt_table)\n                    ):\n",
  "                        tgt_columns := stmt_holder.get_table_columns(tgt_table)\n                    ) and len(tgt_columns) > 1:\n",
  "single-column tables are not registered with the session")
m("m04q", "C04", "sqllineage/core/metadata_provider.py",
  "        self._session_metadata[str(table)] = [c.raw_name for c in columns]\n",
  "        self._session_metadata[str(table)] = sorted(c.raw_name for c in columns)[:3]\n",
  "session keeps at most three columns per table")

# ---------------------------------------------------------------- C14
m("m14a", "C14", "sqllineage/core/models.py",
  "        elif SQLLineageConfig.DEFAULT_SCHEMA:\n            self.raw_name = escape_identifier_name(SQLLineageConfig.DEFAULT_SCHEMA)\n",
  "        elif _default_schema():\n            self.raw_name = escape_identifier_name(_default_schema())\n",
  "default schema memoised in a module global at first use",
  more=[("sqllineage/core/models.py",
         "class Schema:\n",
         "_DEFAULT_SCHEMA_CACHE: list = []\n\n\ndef _default_schema() -> str:\n    if not _DEFAULT_SCHEMA_CACHE:\n        _DEFAULT_SCHEMA_CACHE.append(SQLLineageConfig.DEFAULT_SCHEMA)\n    return _DEFAULT_SCHEMA_CACHE[0]\n\n\nclass Schema:\n")])
m("m14b", "C14", "sqllineage/core/parser/sqlparse/models.py",
  "        schema = Schema(parent_name) if parent_name is not None else Schema()\n        alias = table.get_alias()\n",
  "        schema = Schema(parent_name) if parent_name is not None else _NO_SCHEMA\n        alias = table.get_alias()\n",
  "legacy parser: unqualified tables share one Schema object created at import",
  more=[("sqllineage/core/parser/sqlparse/models.py", "class SqlParseTable(Table):\n", "_NO_SCHEMA = Schema()\n\n\nclass SqlParseTable(Table):\n")])
m("m14c", "C14", "sqllineage/config.py",
  "            if (\n                value := self._thread_config.get(self.get_ident(), {}).get(item)\n            ) is not None:\n                return value\n",
  "            if os.environ.get(\"SQLLINEAGE_\" + item) is None and (\n                value := self._thread_config.get(self.get_ident(), {}).get(item)\n            ) is not None:\n                return value\n",
  "environment consulted before the thread override")
m("m14d", "C14", "sqllineage/core/models.py",
  "    def __init__(self, name: str, schema: Optional[Schema] = None, **kwargs):\n",
  "    def __init__(self, name: str, schema: Optional[Schema] = Schema(), **kwargs):\n",
  "import-time default restored (the repaired defect)")
m("m14e", "C14", "sqllineage/core/parser/sqlfluff/extractors/create_insert.py",
  "                    write_obj = SqlFluffTable.of(segment)\n",
  "                    write_obj = _TABLE_CACHE.setdefault(segment.raw, SqlFluffTable.of(segment))\n",
  "target tables cached by their raw text across statements and runs (schema frozen at first sight)",
  more=[("sqllineage/core/parser/sqlfluff/extractors/create_insert.py", "class CreateInsertExtractor(BaseExtractor):\n",
         "_TABLE_CACHE: dict = {}\n\n\nclass CreateInsertExtractor(BaseExtractor):\n")])
m("m14f", "C14", "sqllineage/core/models.py",
  "            self.schema = Schema(schema_name)\n",
  "            self.schema = Schema(schema_name) if schema_name != SQLLineageConfig.DEFAULT_SCHEMA else Schema()\n",
  "equivalent control: a name qualified with the default schema goes through the default path", expect="miss")

# ---------------------------------------------------------------- C17
m("m17a", "C17", "sqllineage/drawing.py",
  "                    if \"..\" in path_info:\n                        # Do not allow going back to parent path of static folder\n                        return self.handle_404(start_response)\n",
  "",
  "GET: '..' test removed")
m("m17b", "C17", "sqllineage/drawing.py",
  "                            if os.path.commonpath([root, os.path.abspath(target)]) != root:\n",
  "                            if not os.path.abspath(target).startswith(root):\n",
  "POST: string-prefix test restored on normalised paths (sibling-with-common-prefix passes)")
m("m17c", "C17", "sqllineage/drawing.py",
  "                    for param in [\"d\", \"f\"]:\n                        if param in payload:\n",
  "                    for param in [\"f\"]:\n                        if param in payload:\n",
  "POST: only f is checked, not d")
m("m17d", "C17", "sqllineage/drawing.py",
  "                            if param == \"f\" and path_info == \"/directory\":\n                                # what gets listed is the directory holding the file\n                                target = target.parent\n",
  "",
  "/directory: the listed directory (parent of f) is not what is checked")
m("m17e", "C17", "sqllineage/drawing.py",
  "                    root = os.path.abspath(self.root_path)\n",
  "                    root = os.path.abspath(SQLLineageConfig.DIRECTORY)\n",
  "containment tested against the packaged data directory instead of root_path")
m("m17f", "C17", "sqllineage/drawing.py",
  "                    root = os.path.abspath(self.root_path)\n",
  "                    root = os.path.abspath(self.root_path)\n                    payload = {k: (os.path.expanduser(v) if isinstance(v, str) else v) for k, v in payload.items()}\n",
  "control: '~' expansion before the check (checked value is the value used)", expect="miss")
m("m17g", "C17", "sqllineage/drawing.py",
  "                            if os.path.commonpath([root, os.path.abspath(target)]) != root:\n",
  "                            if os.path.commonpath([root, str(Path(target).absolute())]) != root:\n",
  "POST: '..' no longer normalised before the component-wise comparison")
m("m17h", "C17", "sqllineage/drawing.py",
  "        except (SQLLineageException, RuntimeError) as e:\n            return self.handle_400(start_response, str(e))\n",
  "        except (SQLLineageException, RuntimeError) as e:\n            return self.handle_400(start_response, str(e))\n        except OSError as e:\n            return self.handle_400(start_response, f\"{e}: {os.listdir(os.path.dirname(os.path.abspath(e.filename or '.')))}\")\n",
  "helpful error message lists the directory of the failing path on I/O errors")
m("m17i", "C17", "sqllineage/utils/helpers.py",
  "            with open(args.f) as f:\n                sql = f.read()\n",
  "            with open(os.path.expanduser(os.path.expandvars(args.f))) as f:\n                sql = f.read()\n",
  "~ / $VAR expansion at read time but not at check time (a blind spot until round 8: no expandable spelling was generated; now caught through the literal spellings and the HOME seam)",
  more=[("sqllineage/utils/helpers.py", "import logging\n", "import logging\nimport os\n")])

# ---------------------------------------------------------------- C11
m("m11a", "C11", "sqllineage/runner.py",
  "        return sorted(self._sql_holder.source_tables, key=lambda x: str(x))\n",
  "        return list(self._sql_holder.source_tables)\n",
  "source_tables no longer sorted (set order = hash order)")
m("m11b", "C11", "sqllineage/runner.py",
  "            key=lambda x: (str(x[-1]), str(x[0]), [str(c) for c in x]),\n",
  "            key=lambda x: (str(x[-1]), str(x[0])),\n",
  "ties in the column-path sort key restored (the repaired defect)")
m("m11c", "C11", "sqllineage/core/models.py",
  "        return sorted(self._parent, key=lambda p: str(p))\n",
  "        return list(self._parent)\n",
  "parent candidates unsorted")
m("m11e", "C11", "sqllineage/core/holders.py",
  "                    for src_wildcard in sorted(\n                        self.get_source_columns(tgt_wildcard),\n                        key=lambda c: (\n                            (1, c.parent.query_raw)\n                            if isinstance(c.parent, SubQuery)\n                            and c.parent.alias == f\"subquery_{hash(c.parent)}\"\n                            else (0, str(c))\n                        ),\n                    ):\n",
  "                    for src_wildcard in list(\n                        self.get_source_columns(tgt_wildcard)\n                    ):\n",
  "wildcard sources visited in set order again (the repaired defect)")
m("m03j", "C03", "sqllineage/core/holders.py",
  "                    key=lambda x: x[2].get(EdgeTag.INDEX, 0),\n",
  "                    key=lambda x: 0,\n",
  "rename pairs no longer ordered by their position in the statement (graph insertion order instead: deterministic, but not left to right)")
m("m11g", "C11", "sqllineage/core/holders.py",
  "    def _get_target_table(self) -> Optional[Union[SubQuery, Table]]:\n        table = None\n        if write_only := self.write.difference(self.read):\n            table = next(iter(write_only))\n",
  "    def _get_target_table(self) -> Optional[Union[SubQuery, Table]]:\n        table = None\n        if write_only := self.write.difference(self.read):\n            table = next(iter(write_only))\n        elif self.write:\n            table = next(iter(self.write))\n",
  "target table falls back to 'the first' written table when every written table is also read (thought to be an equivalent control - it would need two written tables that are both read - until the round-8 generators reached it: a self-referencing CTAS now gets a target, its unqualified / lateral-alias columns are then resolved, and the answer depends on the hash seed)")
