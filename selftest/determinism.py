#!/venv/bin/python
"""Determinism self-test: every quick check is run twice - (A) default driver, 16 workers; (B) 5 workers and a
different PYTHONHASHSEED for the *simulator-side* interpreter - and the batch log digests (sha256 over the per-run
event-log digests of every simulated run, in plan order) must be identical.  A third run (C) uses 11 workers
while (B) is still running, i.e. under load.  Usage: selftest/determinism.py [C15 C12 ...]"""
import json, os, re, subprocess, sys, time
from concurrent.futures import ThreadPoolExecutor

VERIF = os.path.dirname(os.path.dirname(os.path.abspath(__file__)))
PROPS = sys.argv[1:] or ["C15", "C12", "C11", "C03", "C04", "C14", "C17"]


def run(prop, workers, hseed):
    env = dict(os.environ, VERIF_WORKERS=str(workers), VERIF_DRIVER_HASHSEED=str(hseed), VERIF_BUDGET_S="3000", VERIF_NO_EVIDENCE="1")
    p = subprocess.run([os.path.join(VERIF, "check"), prop, "--tier", "quick"], capture_output=True, text=True, env=env)
    m = re.search(r"batch_log_digest=(\w+)", p.stdout)
    r = re.search(r"runs=(\d+)/(\d+)", p.stdout)
    return {"exit": p.returncode, "digest": m.group(1) if m else None, "runs": r.group(0) if r else None}


def main():
    out = {}
    bad = []
    for prop in PROPS:
        t0 = time.time()
        a = run(prop, 16, 0)
        with ThreadPoolExecutor(2) as ex:
            fb = ex.submit(run, prop, 5, 7)
            fc = ex.submit(run, prop, 11, 12345)
            b, c = fb.result(), fc.result()
        ok = a["digest"] and a["digest"] == b["digest"] == c["digest"] and a["exit"] == b["exit"] == c["exit"] == 0
        out[prop] = {"A_16w_hs0": a, "B_5w_hs7": b, "C_11w_hs12345_under_load": c, "identical": bool(ok), "wall_s": round(time.time() - t0, 1)}
        print(prop, "IDENTICAL" if ok else "DIFFERENT", a, b, c, flush=True)
        if not ok:
            bad.append(prop)
    path = os.path.join(VERIF, "selftest", "determinism_results.json")
    prev = json.load(open(path)) if os.path.exists(path) else {}
    prev.update(out)
    json.dump(prev, open(path, "w"), indent=1)
    return 1 if bad else 0


if __name__ == "__main__":
    sys.exit(main())
