#!/venv/bin/python
"""selftest/mut.py apply <mutant-id> <dir>   -- copies /repo's tracked tree to <dir> and applies the mutant.
   selftest/mut.py list"""
import os, shutil, subprocess, sys

HERE = os.path.dirname(os.path.abspath(__file__))
sys.path.insert(0, HERE)
from mutants import M  # noqa


def scratch_copy(dst, repo="/repo"):
    if os.path.exists(dst):
        shutil.rmtree(dst)
    os.makedirs(dst)
    # working tree (tracked files incl. uncommitted edits), no .git, no db files
    files = subprocess.run(["git", "-C", repo, "ls-files"], capture_output=True, text=True, check=True).stdout.split("\n")
    for f in files:
        if not f or f.startswith("sqllineagejs/") or f.startswith("docs/"):
            continue
        src = os.path.join(repo, f)
        if not os.path.isfile(src):
            continue
        d = os.path.join(dst, f)
        os.makedirs(os.path.dirname(d), exist_ok=True)
        shutil.copy2(src, d)


def apply(mid, dst):
    mu = [x for x in M if x["id"] == mid][0]
    for file, old, new in mu["edits"]:
        p = os.path.join(dst, file)
        s = open(p).read()
        if s.count(old) != 1:
            raise SystemExit(f"mutant {mid}: anchor text occurs {s.count(old)} times in {file}")
        open(p, "w").write(s.replace(old, new))
    return mu


if __name__ == "__main__":
    if sys.argv[1] == "list":
        for x in M:
            print(x["id"], x["property"], x["note"])
    elif sys.argv[1] == "apply":
        scratch_copy(sys.argv[3])
        apply(sys.argv[2], sys.argv[3])
        print("applied", sys.argv[2], "to", sys.argv[3])
