"""pytest plugin: records every (sql, dialect, metadata, config) a LineageRunner is built with
while the repository's own suite runs.  Used once to build /verif/corpus/corpus.json."""
import json, os

REC = {}


def pytest_configure(config):
    from sqllineage.runner import LineageRunner
    from sqllineage.config import SQLLineageConfig
    from sqllineage.core.metadata.dummy import DummyMetaDataProvider

    orig = LineageRunner.__init__

    def init(self, sql, dialect="ansi", metadata_provider=None, *a, **kw):
        meta = None
        if metadata_provider is not None:
            if isinstance(metadata_provider, DummyMetaDataProvider):
                meta = {k: list(v) for k, v in metadata_provider.metadata.items()}
            else:
                meta = "non-dummy"
        cfg = {k: getattr(SQLLineageConfig, k) for k in ("DEFAULT_SCHEMA", "TSQL_NO_SEMICOLON", "LATERAL_COLUMN_ALIAS_REFERENCE")}
        cfg = {k: v for k, v in cfg.items() if v}
        if meta != "non-dummy" and isinstance(sql, str):
            key = json.dumps([sql, dialect, meta, cfg, bool(kw.get("silent_mode"))], sort_keys=True)
            REC[key] = 1
        if metadata_provider is None:
            return orig(self, sql, dialect, *a, **kw)
        return orig(self, sql, dialect, metadata_provider, *a, **kw)

    LineageRunner.__init__ = init


def pytest_unconfigure(config):
    out = os.environ["HARVEST_OUT"]
    items = []
    for k in sorted(REC):
        sql, dialect, meta, cfg, silent = json.loads(k)
        items.append({"sql": sql, "dialect": dialect, "meta": meta, "cfg": cfg, "silent": silent})
    with open(out, "w") as f:
        json.dump(items, f, indent=0, sort_keys=True)
